#!/bin/bash
# Offline setup: nothing to build; verify interpreter, import path and SQLite pragma support.
set -e
cd "$(dirname "$0")"
mkdir -p .scratch evidence replays
PYTHONPATH=/repo/python:/verif /venv/bin/python - <<'PY'
import sqlite3, sqlalchemy, lsst.daf.relation as p, os
assert os.path.realpath(p.__file__).startswith("/repo/python/"), p.__file__
c = sqlite3.connect(":memory:"); c.execute("PRAGMA reverse_unordered_selects=ON")
print("setup ok: sqlite", sqlite3.sqlite_version, "sqlalchemy", sqlalchemy.__version__)
PY
