"""Column tags, the expression mini-AST with its two interpreters, and operation
constructors shared by all checks.

Everything here is plain data (nested tuples of str/int/bool/None) so that programs
pickle, hash and serialise to JSON unchanged.  ``to_lib`` builds library objects through
the public factory methods only; ``ref_eval`` evaluates directly.  The library never sees
the reference interpreter and vice versa.
"""

from __future__ import annotations

import functools

from lsst.daf.relation import ColumnContainer, ColumnExpression, Predicate, SortTerm
from lsst.daf.relation import tests as _tests

# --------------------------------------------------------------------------- tags
KEY_TAGS = ("a", "b", "c")
NONKEY_TAGS = ("n", "d", "d2", "f")
CALC_TAGS = ("x", "y", "z")
ALL_TAGS = KEY_TAGS + NONKEY_TAGS + CALC_TAGS + ("q",)


EFN_NAME = "vf_scale"
EFN_FACTORS = {"e1": 2, "e2": 3}


def efn_impl(engine_name):
    k = EFN_FACTORS[engine_name]
    return lambda x: k * x


def bind_engine(e, engine_name):
    """Replace every ("efn", x) by the arithmetic it means in the named engine."""
    if not isinstance(e, tuple) or not e or not isinstance(e[0], str):
        return e
    if e[0] == "efn":
        return ("mul", bind_engine(e[1], engine_name), ("lit", EFN_FACTORS[engine_name]))
    return tuple(bind_engine(x, engine_name) if isinstance(x, tuple) else x for x in e)


@functools.cache
def tag(name: str):
    """Library column tag for a name.  ``n``, ``d``, ``d2``, ``f`` are non-key columns."""
    return _tests.ColumnTag(name, is_key=name not in NONKEY_TAGS)


def is_key(name: str) -> bool:
    return name not in NONKEY_TAGS


def tags(names) -> frozenset:
    return frozenset(tag(n) for n in names)


def names(tagset) -> frozenset:
    return frozenset(t.qualified_name for t in tagset)


# --------------------------------------------------------------------------- expressions
# scalar:    ("ref", name) ("lit", int) ("neg", e) ("add"|"sub"|"mul", e1, e2)
# predicate: ("eq"|"ne"|"lt"|"le"|"gt"|"ge", e1, e2) ("and", p...) ("or", p...) ("not", p)
#            ("plit", bool) ("pref", name) ("in_range", e, (start, stop, step))
#            ("in_seq", e, (e...)) ("in_seq_list", e, (e...))   [list-backed sequence]
#            ("only", engine_kind, p)   engine-restricted predicate function wrapper (p is a comparison)
#            ("conly", engine_kind, e)  engine-restricted scalar function (e is neg/add/..)
#            ("efn", e)                 named function "vf_scale" registered in every iteration engine's
#                                       ``functions`` table (the documented extension point) with an
#                                       engine-specific meaning (x -> EFN_FACTORS[engine] * x): the node that
#                                       holds it must be evaluated by ITS engine wherever the tree goes.  Only
#                                       for alphabets without preferred-engine calls (bind_engine()).
_CMP = {"eq": "__eq__", "ne": "__ne__", "lt": "__lt__", "le": "__le__", "gt": "__gt__", "ge": "__ge__"}
_ARITH = {"add": "__add__", "sub": "__sub__", "mul": "__mul__"}
_PYCMP = {
    "eq": lambda u, v: u == v,
    "ne": lambda u, v: u != v,
    "lt": lambda u, v: u < v,
    "le": lambda u, v: u <= v,
    "gt": lambda u, v: u > v,
    "ge": lambda u, v: u >= v,
}


def is_predicate(e) -> bool:
    return e[0] in _CMP or e[0] in ("and", "or", "andn", "orn", "not", "plit", "pref", "in_range", "in_seq", "in_seq_list", "only")


def _engine_types(kind):
    from lsst.daf.relation import iteration, sql

    return (iteration.Engine,) if kind == "iteration" else (sql.Engine,)


LIB_CACHE: dict = {}


def to_lib(e):
    """Shared library object for a mini-AST node (see ``_to_lib``)."""
    obj = LIB_CACHE.get(e)
    if obj is None:
        obj = LIB_CACHE[e] = _to_lib(e)
    return obj


def polluted_expressions():
    """Shared expression objects whose declared required columns no longer match what they read."""
    bad = []
    for ast, obj in LIB_CACHE.items():
        try:
            declared = frozenset(t.qualified_name for t in obj.columns_required)
        except Exception as ex:  # noqa: BLE001
            bad.append((ast, f"columns_required raised {type(ex).__name__}"))
            continue
        if declared != free_cols(ast):
            bad.append((ast, f"declares {sorted(declared)} but reads {sorted(free_cols(ast))}"))
    return bad


def _to_lib(e):
    """Build the library expression/predicate for a mini-AST node via public factories.

    Cached per process: the same mini-AST node always yields the *same* library object, the way user
    code re-uses an expression in several operations.  Library expressions are documented as immutable
    values, so sharing is sound - and a change that mutates one (e.g. a cached column set) becomes
    observable from every other operation holding it."""
    k = e[0]
    if k == "ref":
        return ColumnExpression.reference(tag(e[1]))
    if k == "lit":
        return ColumnExpression.literal(e[1])
    if k == "neg":
        return to_lib(e[1]).method("__neg__")
    if k in _ARITH:
        return to_lib(e[1]).method(_ARITH[k], to_lib(e[2]))
    if k == "efn":
        return ColumnExpression.function(EFN_NAME, to_lib(e[1]))
    if k == "conly":
        inner = e[2]
        if inner[0] == "neg":
            return to_lib(inner[1]).method("__neg__", supporting_engine_types=_engine_types(e[1]))
        return to_lib(inner[1]).method(
            _ARITH[inner[0]], to_lib(inner[2]), supporting_engine_types=_engine_types(e[1])
        )
    if k in _CMP:
        return to_lib(e[1]).predicate_method(_CMP[k], to_lib(e[2]))
    if k == "only":
        inner = e[2]
        return to_lib(inner[1]).predicate_method(
            _CMP[inner[0]], to_lib(inner[2]), supporting_engine_types=set(_engine_types(e[1]))
        )
    if k == "and":
        ops = [to_lib(p) for p in e[1:]]
        return Predicate.logical_and(*ops)
    if k == "or":
        ops = [to_lib(p) for p in e[1:]]
        return Predicate.logical_or(*ops)
    if k == "andn" or k == "orn":
        # the node classes themselves, any arity (the factories fold 0 and 1 operands away; the classes are
        # public and the package's own tests build LogicalAnd(()) / LogicalOr((y,)) directly)
        from lsst.daf.relation import LogicalAnd, LogicalOr

        return (LogicalAnd if k == "andn" else LogicalOr)(tuple(to_lib(p) for p in e[1:]))
    if k == "not":
        return to_lib(e[1]).logical_not()
    if k == "plit":
        return Predicate.literal(e[1])
    if k == "pref":
        return Predicate.reference(tag(e[1]))
    if k == "in_range":
        return ColumnContainer.range_literal(range(*e[2])).contains(to_lib(e[1]))
    if k == "in_seq":
        return ColumnContainer.sequence(tuple(to_lib(i) for i in e[2])).contains(to_lib(e[1]))
    if k == "in_seq_list":
        return ColumnContainer.sequence([to_lib(i) for i in e[2]]).contains(to_lib(e[1]))
    raise AssertionError(e)


def ref_eval(e, row):
    """Direct evaluation of a mini-AST node on a ``{name: value}`` row."""
    k = e[0]
    if k == "ref" or k == "pref":
        return row[e[1]]
    if k == "lit" or k == "plit":
        return e[1]
    if k == "neg":
        return -ref_eval(e[1], row)
    if k == "add":
        return ref_eval(e[1], row) + ref_eval(e[2], row)
    if k == "sub":
        return ref_eval(e[1], row) - ref_eval(e[2], row)
    if k == "mul":
        return ref_eval(e[1], row) * ref_eval(e[2], row)
    if k in _PYCMP:
        return _PYCMP[k](ref_eval(e[1], row), ref_eval(e[2], row))
    if k in ("only", "conly"):
        return ref_eval(e[2], row)
    if k == "efn":
        raise AssertionError("efn node not bound to an engine (bind_engine)")
    if k == "and" or k == "andn":
        return all(bool(ref_eval(p, row)) for p in e[1:])
    if k == "or" or k == "orn":
        return any(bool(ref_eval(p, row)) for p in e[1:])
    if k == "not":
        return not ref_eval(e[1], row)
    if k == "in_range":
        start, stop, step = e[2]
        v = ref_eval(e[1], row)
        # written out arithmetically rather than with ``in range(...)`` (independent of the library path)
        if step > 0:
            return start <= v < stop and (v - start) % step == 0
        return stop < v <= start and (start - v) % (-step) == 0
    if k in ("in_seq", "in_seq_list"):
        v = ref_eval(e[1], row)
        return any(v == ref_eval(i, row) for i in e[2])
    raise AssertionError(e)


def free_cols(e) -> frozenset:
    """Columns a mini-AST node reads."""
    k = e[0]
    if k in ("ref", "pref"):
        return frozenset((e[1],))
    if k in ("lit", "plit"):
        return frozenset()
    if k in ("only", "conly"):
        return free_cols(e[2])
    if k == "in_range":
        return free_cols(e[1])
    if k in ("in_seq", "in_seq_list"):
        out = set(free_cols(e[1]))
        for i in e[2]:
            out |= free_cols(i)
        return frozenset(out)
    out: set = set()
    for sub in e[1:]:
        if isinstance(sub, tuple):
            out |= free_cols(sub)
    return frozenset(out)


def engine_restriction(e):
    """Set of engine kinds ('iteration'/'sql') this expression is restricted to, or None."""
    k = e[0]
    if k in ("only", "conly"):
        return e[1]
    for sub in e[1:]:
        if isinstance(sub, tuple) and sub and isinstance(sub[0], str):
            r = engine_restriction(sub)
            if r is not None:
                return r
        elif isinstance(sub, tuple):
            for s2 in sub:
                if isinstance(s2, tuple) and s2 and isinstance(s2[0], str):
                    r = engine_restriction(s2)
                    if r is not None:
                        return r
    return None


def trivial_value(p):
    """Reference constant folding of a predicate: True / False / None (independent of as_trivial)."""
    k = p[0]
    if k == "plit":
        return bool(p[1])
    if k == "not":
        v = trivial_value(p[1])
        return None if v is None else (not v)
    if k == "and" or k == "andn":
        vals = [trivial_value(q) for q in p[1:]]
        if any(v is False for v in vals):
            return False
        return True if all(v is True for v in vals) else None
    if k == "or" or k == "orn":
        vals = [trivial_value(q) for q in p[1:]]
        if any(v is True for v in vals):
            return True
        return False if all(v is False for v in vals) else None
    return None


def fmt(e) -> str:
    """Human-readable rendering of a mini-AST node."""
    k = e[0]
    if k in ("ref", "pref"):
        return e[1]
    if k in ("lit", "plit"):
        return repr(e[1])
    if k == "neg":
        return f"-{fmt(e[1])}"
    sym = {"add": "+", "sub": "-", "mul": "*", "eq": "==", "ne": "!=", "lt": "<", "le": "<=", "gt": ">", "ge": ">="}
    if k in sym:
        return f"({fmt(e[1])}{sym[k]}{fmt(e[2])})"
    if k in ("and", "or"):
        return "(" + f" {k} ".join(fmt(p) for p in e[1:]) + ")" if len(e) > 1 else f"{k}()"
    if k in ("andn", "orn"):
        return ("LogicalAnd" if k == "andn" else "LogicalOr") + "(" + ", ".join(fmt(p) for p in e[1:]) + ")"
    if k == "not":
        return f"not {fmt(e[1])}"
    if k == "in_range":
        return f"{fmt(e[1])} in range{e[2]}"
    if k in ("in_seq", "in_seq_list"):
        return f"{fmt(e[1])} in [{', '.join(fmt(i) for i in e[2])}]"
    if k in ("only", "conly"):
        return f"{fmt(e[2])}@{e[1]}"
    if k == "efn":
        return f"{EFN_NAME}({fmt(e[1])})"
    return repr(e)


# --------------------------------------------------------------------------- operations
# ("calc", tag, expr) ("proj", (names...)) ("proj_all",) ("sel", pred) ("dedup",)
# ("sort", ((expr, asc), ...)) ("slice", start, stop) ("chain", operand) ("join", operand, pred|None, reversed)
# ("mat", name) ("xfer", engine_name)
# ("pe", op, engine_name, backtrack, transfer, require)   -- op applied with preferred-engine options
# operand: ("self",) | (leaf_name, op, op, ...)


def R(n):
    return ("ref", n)


def L(v):
    return ("lit", v)


def sort_terms_to_lib(terms):
    return [SortTerm(to_lib(e), asc) for e, asc in terms]


def fmt_op(op) -> str:
    k = op[0]
    if k == "calc":
        return f"calc {op[1]}={fmt(op[2])}"
    if k == "proj":
        return "proj{" + ",".join(op[1]) + "}"
    if k == "proj_all":
        return "proj(all)"
    if k == "sel":
        return f"sel[{fmt(op[1])}]"
    if k == "dedup":
        return "dedup"
    if k == "sort":
        return "sort[" + ",".join(("" if asc else "-") + fmt(e) for e, asc in op[1]) + "]"
    if k == "slice":
        return f"[{op[1]}:{'' if op[2] is None else op[2]}]"
    if k == "rawslice":
        return f"[{op[1]}:{op[2]}:{op[3]}]"
    if k == "index":
        return f"[{op[1]}]"
    if k == "chain":
        return f"{'rchain' if len(op) > 2 and op[2] else 'chain'}({fmt_prog(op[1])})"
    if k == "join":
        on = ""
        if len(op) > 4 and op[4] is not None:
            if op[4][:1] == ("mm",):
                on = f" min {{{','.join(op[4][1])}}} max {'any' if op[4][2] is None else '{' + ','.join(op[4][2]) + '}'}"
            else:
                on = f" on {{{','.join(op[4])}}}"
        on += " via Join.apply" if len(op) > 5 else ""
        return f"{'rjoin' if op[3] else 'join'}({fmt_prog(op[1])}{', ' + fmt(op[2]) if op[2] else ''}{on})"
    if k == "mat":
        return f"mat({op[1]})"
    if k == "xfer":
        return f"->{op[1]}"
    if k == "pe":
        return f"{fmt_op(op[1])}@pref={op[2]},bt={int(op[3])},tr={int(op[4])},req={int(op[5])}"
    return repr(op)


def fmt_prog(prog) -> str:
    if prog == ("self",):
        return "self"
    if prog[0] == "self":
        return " ; ".join(["self"] + [fmt_op(o) for o in prog[1:]])
    return " ; ".join([prog[0]] + [fmt_op(o) for o in prog[1:]])


def to_jsonable(x):
    if isinstance(x, tuple):
        return [to_jsonable(i) for i in x]
    if isinstance(x, (list,)):
        return [to_jsonable(i) for i in x]
    if isinstance(x, dict):
        return {str(k): to_jsonable(v) for k, v in x.items()}
    if isinstance(x, (set, frozenset)):
        return sorted(to_jsonable(i) for i in x)
    return x


def from_jsonable(x):
    """Inverse of to_jsonable for programs/ops (lists become tuples)."""
    if isinstance(x, list):
        return tuple(from_jsonable(i) for i in x)
    return x
