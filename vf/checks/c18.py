"""C18 - iteration engine is lazy and single-pass where documented."""

from __future__ import annotations

from lsst.daf.relation import (
    BinaryOperationRelation,
    Deduplication,
    LeafRelation,
    MarkerRelation,
    Materialization,
    Sort,
    UnaryOperationRelation,
    iteration,
)

from .. import spaces, walk
from ..alphabet import L, R
from ..explore import Check, SubSpace, coverage_from, explore, replay_case
from ..realize import LeafSpec, World
from .common import classify_basic

RULE = (
    "all iteration-engine trees over the lazy operation set {calculation, projection, selection, slice, chain} up to "
    "depth 4, and all trees mixing in sort, deduplication and materialization up to depth 3, over instrumented leaf "
    "payloads of both kinds (a RowSequence subclass and a plain MaterializedRowIterable subclass) that count iteration "
    "starts and pulls per leaf; after execute() of a lazy tree every leaf counter must be 0; each of 3 full iterations "
    "may start at most one iteration per leaf occurrence; leaves that only occur under an eager operation are consumed "
    "at most once, during execute(), never afterwards, and a second execute() does not re-consume what a "
    "materialization cached; repeated iterations return identical rows equal to the reference; non-trivial = tree "
    "depth >= 2; distinct = distinct (tree, counter profile) digests"
)


class Stats:
    __slots__ = ("starts", "pulls")

    def __init__(self):
        self.starts = 0
        self.pulls = 0

    def snap(self):
        return (self.starts, self.pulls)


class _It:
    def __init__(self, rows, stats):
        stats.starts += 1
        self._it = iter(rows)
        self._stats = stats

    def __iter__(self):
        return self

    def __next__(self):
        r = next(self._it)
        self._stats.pulls += 1
        return r


class CountingSequence(iteration.RowSequence):
    def __init__(self, rows):
        super().__init__(rows)
        self.stats = Stats()

    def __iter__(self):
        return _It(self.rows, self.stats)


class CountingMaterialized(iteration.MaterializedRowIterable):
    def __init__(self, rows):
        self._rows = rows
        self.stats = Stats()

    def __iter__(self):
        return _It(self._rows, self.stats)

    def __len__(self):
        return len(self._rows)


def payload_factory(spec, rows):
    return CountingMaterialized(rows) if spec.name.startswith("M") else CountingSequence(rows)


def world():
    e = "e1"
    leaves = (
        LeafSpec("L", e, spaces.ABCN, spaces.RICH),
        LeafSpec("M", e, spaces.ABCN, spaces.RICH),
        LeafSpec("L2", e, spaces.ABCN, spaces.SIB),
        LeafSpec("M2", e, spaces.ABCN, spaces.SIB),
        LeafSpec("Eloose", e, spaces.ABCN, (), min_rows=0, max_rows=3),
        LeafSpec("Ltwin", e, spaces.ABCN, spaces.SIB, leaf_name="L"),
    )
    return World(engines=(("e1", "it"), ("e2", "it")), leaves=leaves)


LAZY = (
    ("calc", "x", spaces.NEG_A),
    ("calc", "y", spaces.A_MINUS_C),
    ("proj", ("a", "b")),
    ("proj", ("a", "n")),
    ("proj", ()),
    ("sel", spaces.P_A_GT_1),
    ("sel", spaces.P_A_SEQ),
    ("sel", spaces.P_FALSE),
    ("slice", 1, 3),
    ("slice", 2, None),
    ("slice", 0, 0),
    ("slice", 0, 2),
    ("slice", 0, 9),
    ("chain", ("self",)),
    ("chain", ("L2",)),
    ("chain", ("M2",)),
    ("chain", ("Eloose",)),
    ("chain", ("M2", ("sel", spaces.P_A_GT_1))),
    ("chain", ("Ltwin",)),
)
EAGER = (
    ("dedup",),
    spaces.S((R("a"), False)),
    spaces.S((R("b"), True), (R("a"), False)),
    ("mat", "m1"),
    ("xfer", "e2"),
    ("chain", ("L2", spaces.S((R("a"), True)))),
    ("chain", ("M2", ("mat", "m2"))),
)
EAGER_OPS = (Sort, Deduplication)


def leaf_profile(rel, leaf_payloads=(), by_payload=None):
    """{leaf name: (occurrences, occurrences not under any eager op, occurrences under a materialization)}

    A Materialization whose cached payload *is* a leaf's own payload object (its input was already
    materialized, so ``materialized()`` returned it unchanged) is a pass-through: reading the cache
    is reading that leaf payload, which is not a re-evaluation of anything."""
    prof = {}
    leaf_payload_ids = {id(p) for p in leaf_payloads}
    by_payload = by_payload or {}

    def w(n, eager, mat):
        match n:
            case LeafRelation():
                key = by_payload.get(id(n.payload), n.name)  # two leaves may share a name; payloads tell them apart
                o, f, m = prof.get(key, (0, 0, 0))
                prof[key] = (o + 1, f + (0 if eager else 1), m + (1 if mat else 0))
            case UnaryOperationRelation():
                w(n.target, eager or isinstance(n.operation, EAGER_OPS), mat)
            case BinaryOperationRelation():
                w(n.lhs, eager, mat)
                w(n.rhs, eager, mat)
            case Materialization():
                if n.payload is not None and id(n.payload) in leaf_payload_ids:
                    w(n.target, eager, mat)
                else:
                    w(n.target, True, True)
            case MarkerRelation():
                w(n.target, eager, mat)

    w(rel, False, False)
    return prof


def has_eager(rel):
    for n in walk.spine_walk(rel):
        if isinstance(n, Materialization):
            return True
        if isinstance(n, UnaryOperationRelation) and isinstance(n.operation, EAGER_OPS):
            return True
    return False


class C18(Check):
    pid = "C18"

    def subspaces(self, tier):
        w = world()
        if tier == "quick":
            return [
                SubSpace("lazy/d4", w, ("L", "M"), LAZY, 4, payload_factory),
                SubSpace("mixed/d3", w, ("L", "M"), LAZY + EAGER, 3, payload_factory),
            ]
        return [
            SubSpace("lazy/d5", w, ("L", "M"), LAZY, 5, payload_factory),
            SubSpace("mixed/d4", w, ("L", "M"), LAZY + EAGER, 4, payload_factory),
        ]

    def judge(self, tr):
        if not classify_basic(tr):
            return False
        rel, ctx = tr.rel, tr.ctx
        stats = {n: p.stats for n, p in ctx.leaf_payloads.items()}
        eager = has_eager(rel)
        tr.nontrivial = tr.depth >= 2

        def snap():
            return {n: s.snap() for n, s in stats.items()}

        def delta(a, b):
            return {n: (b[n][0] - a[n][0], b[n][1] - a[n][1]) for n in a}

        s0 = snap()
        try:
            result = rel.engine.execute(rel)
        except Exception as e:  # noqa: BLE001
            tr.count("execute_failed_not_judged_here:" + type(e).__name__)
            return True
        s1 = snap()
        d_exec = delta(s0, s1)
        prof = leaf_profile(rel, ctx.leaf_payloads.values(), {id(p): n for n, p in ctx.leaf_payloads.items()})
        if not eager:
            tr.count("lazy_trees")
            touched = {n: d for n, d in d_exec.items() if d != (0, 0)}
            if touched:
                tr.violation("lazy-execute-touched-leaf", f"execute() of a lazy tree iterated leaf payloads: {touched}")
                return True
        else:
            tr.count("eager_trees")
        for n, (starts, _) in d_exec.items():
            if starts > prof.get(n, (0, 0, 0))[0]:
                tr.violation("execute-multi-pass", f"execute() started {starts} iterations of leaf {n} which occurs {prof.get(n, (0,0,0))[0]} time(s)")
                return True
        lists = []
        total = {n: d_exec[n][0] for n in d_exec}
        prev = s1
        for i in range(3):
            got = [{t.qualified_name: v for t, v in row.items()} for row in result]
            cur = snap()
            d = delta(prev, cur)
            prev = cur
            lists.append(got)
            for n, (starts, _) in d.items():
                occ, free, _m = prof.get(n, (0, 0, 0))
                total[n] += starts
                if starts > free:
                    tr.violation(
                        "iteration-multi-pass" if free else "eager-input-reconsumed",
                        f"iteration #{i + 1} started {starts} iterations of leaf {n} (occurrences {occ}, of which {free} not under an eager operation)",
                    )
                    return True
        if lists[0] != lists[1] or lists[1] != lists[2]:
            tr.violation("repeated-iteration-differs", f"{lists[0][:4]} / {lists[1][:4]} / {lists[2][:4]}")
            return True
        if lists[0] != list(tr.val.rows):
            tr.violation("rows", f"expected {list(tr.val.rows)[:6]} got {lists[0][:6]}")
            return True
        # second execute(): what a materialization cached is not consumed again
        s2 = snap()
        try:
            result2 = rel.engine.execute(rel)
            for _ in result2:
                pass
        except Exception as e:  # noqa: BLE001
            tr.count("execute_failed_not_judged_here:" + type(e).__name__)
            return True
        d2 = delta(s2, snap())
        for n, (starts, _) in d2.items():
            occ, free, mat = prof.get(n, (0, 0, 0))
            if starts > occ - mat:
                tr.violation(
                    "materialization-recomputed",
                    f"a second execute()+iteration started {starts} iterations of leaf {n}; {mat} of its {occ} occurrence(s) are cached by a materialization",
                )
                return True
        tr.outcome = (walk.key(rel), tuple(sorted(d_exec.items())), tuple(sorted(total.items())))
        return True


def run(tier, seed):
    res = explore(C18(), tier, seed)
    return {
        "coverage": coverage_from(res, RULE),
        "violations": res["violations"],
        "assumptions": [
            "direct rows[start:stop] slicing of a RowSequence payload (documented) is not an iteration",
            "leaf payload instrumentation: subclasses of the public RowSequence / MaterializedRowIterable supplied by the harness",
        ],
    }


def replay(doc):
    return replay_case(C18(), doc["case"])
