"""C08 - every tree the factories accept can be compiled and executed."""

from __future__ import annotations

from .. import spaces, walk
from ..explore import Check, SubSpace, coverage_from, explore, replay_case
from .common import SqlObs, classify_basic, is_sql, rows_digest

RULE = (
    "every program over the iteration alphabet and the widest SQL alphabet (joins and chains whose operands are "
    "chains, joins, deduplicated / sliced / projected / calculated relations, the doomed and join-identity leaves) up "
    "to the depth bound; phase classification: a construction-time ColumnError / EngineError / documented "
    "row-order-loss error means 'not accepted' (not judged here); every accepted tree must go through to_executable + "
    "compile + SQLite execution in both scan orders (or execute + full iteration) without any exception, and again "
    "with to_executable(extra_columns=<one-shot iterator of one literal column>), whose rows must all carry that column; "
    "non-trivial = accepted program of depth >= 2; distinct = distinct tree digests"
)


class C08(Check):
    pid = "C08"

    def subspaces(self, tier):
        iw, sw = spaces.it_world(), spaces.sql_world()
        if tier == "quick":
            return [
                SubSpace("sql/wide/d2", sw, ("X", "E", "X1"), spaces.SQL_WIDE, 2),
                SubSpace("sql/wide/X/d3", sw, ("X",), spaces.SQL_WIDE, 3),
                SubSpace("sql/reduced/X/d4", sw, ("X",), spaces.SQL_REDUCED, 4),
                SubSpace("it/full/d3", iw, ("L", "E0", "L1"), spaces.IT_FULL, 3),
            ]
        return [
            SubSpace("sql/wide/d3", sw, ("X", "E", "X1", "Xunb"), spaces.SQL_WIDE, 3),
            SubSpace("sql/full/X/d4", sw, ("X",), spaces.SQL_FULL, 4),
            SubSpace("sql/reduced/X/d5", sw, ("X",), spaces.SQL_REDUCED, 5),
            SubSpace("it/full/d4", iw, ("L",), spaces.IT_FULL, 4),
            SubSpace("it/full/d3", iw, ("E0", "L1", "Lunb"), spaces.IT_FULL, 3),
        ]

    def judge(self, tr):
        if tr.rel is None:
            tr.count("not_accepted:" + type(tr.exc).__name__)
            return False
        rel = tr.rel
        tr.count("accepted")
        tr.nontrivial = tr.depth >= 2
        tr.outcome = walk.key(rel)
        if is_sql(rel):
            if tr.op[0] == "mat":
                tr.count("terminal_materialization_needs_processor")
                return False
            obs = SqlObs(rel)
            if obs.failed:
                phase, e = obs.failure()
                tr.violation(f"{phase}-raised", f"{type(e).__name__}: {str(e)[:200]}", phase=phase, exc=type(e).__name__)
            else:
                self.extra_columns_probe(tr, rel, len(obs.rows[0]))
        else:
            try:
                for _ in rel.engine.execute(rel):
                    pass
            except Exception as e:  # noqa: BLE001
                tr.violation("execute-raised", f"{type(e).__name__}: {str(e)[:200]}", phase="execute", exc=type(e).__name__)
        if tr.ooc or tr.val is None:
            tr.count("not_expanded_no_reference_value")
            return False
        return True


def _extra_columns_probe(self, tr, rel, nrows):
    """The public to_executable(extra_columns=...) argument is documented as any Iterable: hand it a
    one-shot iterator (the strictest Iterable) and require the query to compile, run and carry the column."""
    import sqlalchemy

    from ..realize import db, run_sql, sqlite_fix

    try:
        q = rel.engine.to_executable(rel, extra_columns=iter([sqlalchemy.sql.literal(7).label("extra7")]))
        comp = q.compile(dialect=db().dialect, compile_kwargs={"render_postcompile": True})
        rows = run_sql(sqlite_fix(str(comp)), [comp.params[k] for k in (comp.positiontup or ())])
    except Exception as e:  # noqa: BLE001
        tr.violation("extra-columns-raised", f"to_executable(extra_columns=<iterator>): {type(e).__name__}: {str(e)[:200]}", exc=type(e).__name__)
        return
    tr.count("extra_columns_probes")
    if len(rows) != nrows or any(r.get("extra7") != 7 for r in rows):
        tr.violation("extra-columns-lost", f"to_executable(extra_columns=<iterator>) returned {len(rows)} rows (plain query {nrows}), first {rows[:2]}")


C08.extra_columns_probe = _extra_columns_probe


def run(tier, seed):
    res = explore(C08(), tier, seed)
    return {
        "coverage": coverage_from(res, RULE),
        "violations": res["violations"],
        "assumptions": [
            "SQLite (through the UNION-operand adapter of DESIGN 2.3) stands in for the target database",
            "joins in the iteration engine are outside the alphabet (documented as unsupported by that engine)",
            "SQL-engine materializations need a Processor and are exercised by C07, not here",
        ],
    }


def replay(doc):
    return replay_case(C08(), doc["case"])
