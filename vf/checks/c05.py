"""C05 - merging and eliding adjacent operations preserves semantics and never rejects."""

from __future__ import annotations

import itertools

from lsst.daf.relation import Calculation, Projection, Selection, Slice, Sort

from .. import alphabet as A
from .. import findings, libmap, par
from ..alphabet import L, R
from ..realize import Ctx, LeafSpec, World
from ..refmodel import RefOOC, RefReject, compare, ref_apply
from .common import SqlObs

RULE = (
    "all ordered pairs of adjacent operations applied through the real factories in both engines: slice x slice for "
    "all 0<=start<=5, stop in {start..6, None} (33^2 pairs) on targets of every length 0..7; sort x sort for all term "
    "lists of length <= 2 over {a,-a,b,-b,-(a+b)} (31^2 pairs) on all row lists of length <= 3 over the 2x2x2 value cube "
    "(585 targets; SQL: 3 fixed tables); selection x selection over 9 predicate shapes; projection over projection and "
    "over used/unused calculations; every do-nothing form after every operation; plus simplify() called directly and its "
    "result interpreted by the reference; non-trivial = the pair merged or elided (result tree has fewer than two new "
    "operation nodes); distinct = distinct (family, pair, target) cases"
)

ABC = ("a", "b", "c")
CUBE = [(i, j, k) for i in (0, 1) for j in (0, 1) for k in (0, 1)]
SLICES = [(s, e) for s in range(0, 6) for e in list(range(s, 7)) + [None]]
TERMS = [(R("a"), True), (R("a"), False), (R("b"), True), (R("b"), False), (("add", R("a"), R("b")), False)]
SORTS = [()] + [(t,) for t in TERMS] + [(t, u) for t in TERMS for u in TERMS]
PREDS = [
    ("gt", R("a"), L(0)),
    ("eq", R("b"), R("c")),
    ("plit", True),
    ("plit", False),
    ("and", ("plit", True), ("gt", R("a"), L(0))),
    ("and", ("gt", R("a"), L(0)), ("eq", R("b"), L(1))),
    ("or", ("gt", R("a"), L(0)), ("eq", R("c"), L(1))),
    ("not", ("eq", R("b"), R("c"))),
    ("in_seq", R("a"), (R("b"), L(1))),
]
SQL_TABLES = [
    ((1, 0, 1), (0, 1, 0), (1, 0, 1), (0, 0, 0), (1, 1, 0), (0, 1, 1)),
    ((0, 0, 0), (0, 0, 1), (1, 0, 0), (1, 1, 1)),
    (),
]


def world(kind, rows):
    eng = "e1" if kind == "it" else "s"
    return World(engines=((eng, kind),), leaves=(LeafSpec("T", eng, ABC, tuple(rows)),))


def all_targets(maxlen):
    return [t for n in range(0, maxlen + 1) for t in itertools.product(CUBE, repeat=n)]


def cases(tier):
    """(family, kind, prefix_ops, op1, op2, targets_id)"""
    out = []
    for s1 in SLICES:
        for s2 in SLICES:
            out.append(("slice", ("slice",) + s1, ("slice",) + s2))
    for t1 in SORTS:
        for t2 in SORTS:
            out.append(("sort", ("sort", t1), ("sort", t2)))
    for p1 in PREDS:
        for p2 in PREDS:
            out.append(("sel", ("sel", p1), ("sel", p2)))
    subsets = [tuple(c for c, keep in zip(ABC, m) if keep) for m in itertools.product((0, 1), repeat=3)]
    for p1 in subsets:
        for p2 in subsets:
            out.append(("proj", ("proj", p1), ("proj", p2)))
    calcs = [("calc", "x", ("neg", R("a"))), ("calc", "x", ("add", R("a"), R("b")))]
    for c in calcs:
        for p2 in subsets + [p + ("x",) for p in subsets]:
            out.append(("calc-proj", c, ("proj", p2)))
    firsts = [
        ("calc", "x", ("neg", R("a"))),
        ("proj", ("a", "b")),
        ("sel", ("gt", R("a"), L(0))),
        ("dedup",),
        ("sort", ((R("b"), False),)),
        ("slice", 1, 3),
    ]
    noops = [
        ("slice", 0, None),
        ("sort", ()),
        ("proj_all",),
        ("sel", ("plit", True)),
        ("sel", ("and", ("plit", True), ("plit", True))),
        ("sel", ("or", ("plit", True), ("gt", R("q"), L(0)))),
    ]
    for f in firsts:
        for n in noops:
            out.append(("noop", f, n))
    return out


def _direct_simplify(op1, op2):
    """Call simplify() on library operation objects directly; returns mini-AST op or None."""

    def mk(op):
        k = op[0]
        if k == "slice":
            return Slice(op[1], op[2])
        if k == "sort":
            return Sort(tuple(A.sort_terms_to_lib(op[1])))
        if k == "sel":
            return Selection(A.to_lib(op[1]))
        if k == "proj":
            return Projection(A.tags(op[1]))
        if k == "calc":
            return Calculation(A.tag(op[1]), A.to_lib(op[2]))
        return None

    if op2[0] == "sel" and A.trivial_value(op2[1]) is True and A.free_cols(op2[1]):
        # apply() never hands a trivially-true selection to simplify(); one that also names
        # columns would make the direct call ill-formed by construction of the harness
        return "n/a"
    a, b = mk(op1), mk(op2)
    if a is None or b is None:
        return "n/a"
    s = b.simplify(a)
    if s is None:
        return None
    if s is a:
        return ("same-as-upstream",)
    return libmap.op_from_lib(s)


def _targets(fam, kind, tier):
    if fam == "slice":
        return [tuple((i, i % 2, 0) for i in range(n)) for n in range(0, 8)]
    if kind == "sql":
        return SQL_TABLES
    if fam in ("sort", "sel"):
        return all_targets(3)
    return all_targets(2) + [SQL_TABLES[0]]


def _work(chunk):
    tier = chunk[0]
    viols = []
    stats = {"evals": 0, "pairs": 0, "invalid_pairs": 0, "merged": 0, "ooc": 0, "simplify_direct": 0, "strong": 0, "weak": 0}
    distinct_nontrivial = 0
    for fam, op1, op2 in chunk[1]:
        stats["pairs"] += 1

        def bad(kind_, detail, kindeng, rows, rel=None):
            v = {
                "kind": kind_,
                "detail": detail,
                "case": {"family": fam, "engine": kindeng, "op1": A.to_jsonable(op1), "op2": A.to_jsonable(op2), "rows": A.to_jsonable(rows)},
                "program_str": f"[{kindeng}] T{list(rows)[:4]} ; {A.fmt_op(op1)} ; {A.fmt_op(op2)}",
            }
            v["finding"] = findings.attribute("C05", v, {"rel": rel})
            viols.append(v)

        # direct simplify(), interpreted on the iteration targets below
        try:
            simp = _direct_simplify(op1, op2)
        except Exception as ex:  # noqa: BLE001
            simp = "n/a"
            bad("simplify-raised", f"{type(ex).__name__}: {ex}", "direct", ())
        for kind in ("it", "sql"):
            prefix = ()
            if kind == "sql" and fam == "slice":
                prefix = (("sort", ((R("a"), True),)),)
            for rows in _targets(fam, kind, tier):
                w = world(kind, rows)
                scen = w.scenario()
                ctx = Ctx(w)
                rel = ctx.leaves["T"]
                val = scen.leaf_val("T")
                try:
                    for op in prefix:
                        rel = ctx.apply(rel, op)
                        val = ref_apply(val, op, scen, True)
                    v1 = ref_apply(val, op1, scen, True)
                    v2 = ref_apply(v1, op2, scen, getattr(rel, "has_sort", None))
                except RefReject:
                    stats["invalid_pairs"] += 1
                    break
                except RefOOC:
                    stats["ooc"] += 1
                    continue
                try:
                    r1 = ctx.apply(rel, op1)
                except Exception as ex:  # noqa: BLE001
                    bad("first-op-raised", f"{type(ex).__name__}: {ex}", kind, rows)
                    break
                try:
                    r2 = ctx.apply(r1, op2)
                except Exception as ex:  # noqa: BLE001
                    bad("merge-raised", f"two individually valid operations rejected: {type(ex).__name__}: {ex}", kind, rows)
                    break
                stats["evals"] += 1
                if kind == "it":
                    from lsst.daf.relation import UnaryOperationRelation

                    plain = isinstance(r2, UnaryOperationRelation) and r2.target is r1
                    if not plain:
                        stats["merged"] += 1
                        distinct_nontrivial += 1
                    got = ctx.rows_of(r2)
                    strength, ok, detail = compare(v2, got)
                    stats["strong"] += 1
                    if not ok:
                        bad("rows", f"{detail}: expected {list(v2.rows)[:6]} got {got[:6]} tree={r2}", kind, rows, r2)
                        break
                    if simp not in ("n/a", None):
                        stats["simplify_direct"] += 1
                        try:
                            vs = v1 if simp == ("same-as-upstream",) else ref_apply(val, simp, scen, True)
                        except RefReject as rj:
                            bad("simplify-illformed", f"simplify() returned {simp} which is ill-formed on the target: {rj.reason}", kind, rows)
                            break
                        if list(vs.rows) != list(v2.rows):
                            bad("simplify-rows", f"simplify() returned {A.fmt_op(simp) if simp[0] != 'same-as-upstream' else simp}: expected {list(v2.rows)[:6]} got {list(vs.rows)[:6]}", kind, rows)
                            break
                else:
                    distinct_nontrivial += 1
                    obs = SqlObs(r2)
                    if obs.failed:
                        phase, ex = obs.failure()
                        bad(f"{phase}-raised", f"{type(ex).__name__}: {str(ex)[:200]}", kind, rows, r2)
                        break
                    failed = False
                    for got in obs.rows:
                        strength, ok, detail = compare(v2, got)
                        stats["strong" if strength != "weak" else "weak"] += 1
                        if not ok:
                            bad("rows", f"{detail} ({strength}): expected {list(v2.rows)[:6]} got {got[:6]} sql={obs.text[:200]}", kind, rows, r2)
                            failed = True
                            break
                    if failed:
                        break
    return {"stats": stats, "violations": viols, "nontrivial": distinct_nontrivial}


def run(tier, seed):
    cs = cases(tier)
    fams = {}
    for c in cs:
        fams[c[0]] = fams.get(c[0], 0) + 1
    results = par.pmap(_work, [(tier, ch) for ch in par.chunks(cs, 128)])
    stats = {}
    for r in results:
        for k, v in r["stats"].items():
            stats[k] = stats.get(k, 0) + v
    viols = [v for r in results for v in r["violations"]]
    cov = {
        "states": stats["evals"],
        "transitions": stats["evals"] * 2,
        "traces_validated_against_impl": stats["evals"] * 2,
        "evaluations": stats["evals"],
        "distinct_nontrivial": sum(r["nontrivial"] for r in results),
        "pairs_by_family": fams,
        "stats": stats,
        "rule": RULE,
        "exhaustive": True,
        "samples": [
            {"family": f, "op1": A.fmt_op(a), "op2": A.fmt_op(b)} for f, a, b in cs[:: max(1, len(cs) // 10)]
        ][:12],
    }
    return {
        "coverage": cov,
        "violations": viols,
        "assumptions": [
            "SQL results compared as lists only where the reference says the order is determined (total sort), else as multisets",
            "targets: all row lists up to length 3 over a 2x2x2 value cube (iteration); three fixed tables (SQL)",
        ],
    }


def replay(doc):
    c = doc["case"]
    op1, op2 = A.from_jsonable(c["op1"]), A.from_jsonable(c["op2"])
    return _work(("quick", [(c["family"], op1, op2)]))["violations"]
