"""C14 - every reachable tree is engine-consistent and structurally well-formed."""

from __future__ import annotations

from lsst.daf.relation import ColumnError, EngineError

from .. import spaces, walk
from ..explore import Check, SubSpace, coverage_from, explore, replay_case

RULE = (
    "[plus: every (engine kind pair, shared explicit / default name, small tree, transfer / chain / join / preferred-engine "
    "call) combination over two DISTINCT engine objects carrying the SAME name - engines are identified by object, not by name] "
    "every tree produced by any program over (i) the iteration alphabet, (ii) the SQL alphabet, (iii) a three-engine "
    "alphabet (SQL engine s, iteration engines e1/e2) with transfers, materializations, joins to partners in either "
    "engine, engine-restricted column functions and every preferred_engine x backtrack x transfer x "
    "require_preferred_engine combination, up to the depth bound; on every produced tree a full walk "
    "(target/lhs/rhs/skip_to) checks the node-local invariants of C14; documented no-op calls must return the identical "
    "object; calls the reference typing predicts ill-formed must raise ColumnError/EngineError; non-trivial = tree spans "
    ">= 2 engines or was produced with a preferred-engine option; distinct = distinct tree digests"
)


def _inner(op):
    return op[1] if op[0] == "pe" else op


class C14(Check):
    pid = "C14"

    def subspaces(self, tier):
        iw, sw, mw = spaces.it_world(), spaces.sql_world(), spaces.multi_world()
        if tier == "quick":
            return [
                SubSpace("multi/full/d3", mw, ("X", "L", "IS", "I1"), spaces.MULTI_FULL, 3),
                SubSpace("it/full/d3", iw, ("L", "E0"), spaces.IT_FULL, 3),
                SubSpace("sql/wide/d3", sw, ("X", "E"), spaces.SQL_WIDE, 3),
            ]
        return [
            SubSpace("multi/full/d4", mw, ("X", "L", "IS", "I1"), spaces.MULTI_FULL, 4),
            SubSpace("it/full/d4", iw, ("L",), spaces.IT_FULL, 4),
            SubSpace("sql/wide/d3", sw, ("X", "E", "X1"), spaces.SQL_WIDE, 3),
            SubSpace("sql/full/d4", sw, ("X",), spaces.SQL_FULL, 4),
        ]

    def judge(self, tr):
        op = _inner(tr.op)
        if tr.rel is None:
            if isinstance(tr.exc, (ColumnError, EngineError)):
                tr.count("raised:" + type(tr.exc).__name__)
            else:
                tr.count("raised_other:" + type(tr.exc).__name__)
            return False
        rel = tr.rel
        tr.outcome = walk.key(rel)
        engines = {str(n.engine) for n in walk.walk(rel)}
        tr.nontrivial = len(engines) >= 2 or tr.op[0] == "pe"
        for p in walk.wellformed_problems(rel):
            tr.violation("malformed-tree", f"{p}; tree={rel}")
            break
        # documented no-op calls return the relation itself
        noop = (
            op[0] == "proj_all"
            or (op[0] == "proj" and frozenset(op[1]) == tr.parent_val.cols)
            or (op[0] == "sort" and not op[1])
            or (op[0] == "xfer" and op[1] == str(tr.parent_rel.engine))
        )
        if noop:
            tr.count("documented_noops")
            if rel is not tr.parent_rel:
                tr.violation("noop-not-identity", f"documented no-op {tr.op} returned a different object: {rel}")
        # ill-formed calls must not return a tree
        if tr.val is None and not tr.ooc and tr.rej is not None:
            cross_engine_join = op[0] == "join" and tr.rej.classes == {"EngineError"}
            order_only = tr.rej.classes == {"RelationalAlgebraError"}
            if not cross_engine_join and not order_only:
                tr.violation(
                    "ill-formed-accepted",
                    f"call predicted ill-formed ({sorted(tr.rej.classes)}: {tr.rej.reason}) returned {rel}",
                )
        if tr.ooc or tr.val is None:
            return False
        return True


def same_name_engines(case=None):
    """Engines are distinct objects even when they carry the same name (two default-named engines are the
    common case).  Exhaustive over: engine kind pairs x {explicit shared name, default name} x 4 small trees x
    {transfer, chain, join, preferred-engine selection}: a transfer to the *other* object must yield a relation
    living in that object through a Transfer node, and binary operations across the two must raise EngineError."""
    from lsst.daf.relation import EngineError, Transfer, iteration, sql

    from .. import alphabet as A

    viols, n = [], 0
    cols = A.tags(("a", "b"))
    a_gt = A.to_lib(("gt", ("ref", "a"), ("lit", 1)))

    def mk(kind, name):
        kw = {} if name is None else {"name": name}
        return iteration.Engine(**kw) if kind == "it" else sql.Engine(**kw)

    def leaf(eng, nm):
        if isinstance(eng, iteration.Engine):
            rows = [{A.tag("a"): 1, A.tag("b"): 2}, {A.tag("a"): 2, A.tag("b"): 1}]
            return eng.make_leaf(cols, payload=iteration.RowSequence(rows), name=nm)
        return eng.make_leaf(cols, payload=sql.Payload(from_clause=None, columns_available={}), name=nm, min_rows=2, max_rows=2)

    shapes = ("leaf", "sel", "proj", "slice")
    actions = ("xfer", "chain", "rchain", "join", "pe_sel")
    for k1 in ("it", "sql"):
        for k2 in ("it", "sql"):
            for name in ("dup", None):
                for shape in shapes:
                    for action in actions:
                        c = [k1, k2, name, shape, action]
                        if case is not None and c != case:
                            continue
                        e1, e2 = mk(k1, name), mk(k2, name)
                        r = leaf(e1, "t1")
                        if shape == "sel":
                            r = r.with_rows_satisfying(a_gt)
                        elif shape == "proj":
                            r = r.with_only_columns(A.tags(("a",)))
                        elif shape == "slice":
                            r = r[0:1]
                        other = leaf(e2, "t2")
                        if shape == "proj":
                            other = other.with_only_columns(A.tags(("a",)))
                        n += 1
                        why = None
                        try:
                            if action == "xfer":
                                out = r.transferred_to(e2)
                                if out.engine is not e2:
                                    why = f"transferred_to(other engine object, same name {e2.name!r}) returned a relation living in a different engine object"
                                elif not any(isinstance(x, Transfer) and x.engine is e2 for x in walk.walk(out)):
                                    why = f"transfer to a distinct engine object with the same name {e2.name!r} was elided: {out}"
                            elif action == "pe_sel":
                                out = r.transferred_to(e2).with_rows_satisfying(a_gt, preferred_engine=e1)
                                bad = [x for x in walk.walk(out) if hasattr(x, "operation") and x.engine is not x.target.engine]
                                if bad:
                                    why = f"operation node lives in another engine object than its operand: {out}"
                            else:
                                try:
                                    out = r.chain(other) if action == "chain" else other.chain(r) if action == "rchain" else r.join(other, backtrack=False)
                                    why = f"{action} across two distinct engine objects named {e2.name!r} returned {out} instead of raising EngineError"
                                except EngineError:
                                    pass
                        except Exception as e:  # noqa: BLE001
                            why = f"{type(e).__name__}: {e}"
                        if why:
                            viols.append(
                                {
                                    "kind": "same-name-engines-confused",
                                    "detail": why,
                                    "case": {"same_name_engines": c},
                                    "program_str": f"engines {k1}/{k2} name={name!r} {shape} ; {action}",
                                    "finding": None,
                                }
                            )
    return viols, n


def run(tier, seed):
    res = explore(C14(), tier, seed)
    sn_viols, sn_n = same_name_engines()
    res["violations"] = list(res["violations"]) + sn_viols
    res["counters"]["same_name_engine_cases"] = sn_n
    return {
        "coverage": coverage_from(res, RULE),
        "violations": res["violations"],
        "assumptions": [
            "structural invariants are read from public attributes only (operation, target, lhs, rhs, skip_to, engine, columns)",
            "a join whose operands live in different engines may legitimately succeed through backtracking; only its tree is judged",
        ],
    }


def replay(doc):
    if "same_name_engines" in doc["case"]:
        return same_name_engines(doc["case"]["same_name_engines"])[0]
    return replay_case(C14(), doc["case"])
