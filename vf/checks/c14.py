"""C14 - every reachable tree is engine-consistent and structurally well-formed."""

from __future__ import annotations

from lsst.daf.relation import ColumnError, EngineError

from .. import spaces, walk
from ..explore import Check, SubSpace, coverage_from, explore, replay_case

RULE = (
    "every tree produced by any program over (i) the iteration alphabet, (ii) the SQL alphabet, (iii) a three-engine "
    "alphabet (SQL engine s, iteration engines e1/e2) with transfers, materializations, joins to partners in either "
    "engine, engine-restricted column functions and every preferred_engine x backtrack x transfer x "
    "require_preferred_engine combination, up to the depth bound; on every produced tree a full walk "
    "(target/lhs/rhs/skip_to) checks the node-local invariants of C14; documented no-op calls must return the identical "
    "object; calls the reference typing predicts ill-formed must raise ColumnError/EngineError; non-trivial = tree spans "
    ">= 2 engines or was produced with a preferred-engine option; distinct = distinct tree digests"
)


def _inner(op):
    return op[1] if op[0] == "pe" else op


class C14(Check):
    pid = "C14"

    def subspaces(self, tier):
        iw, sw, mw = spaces.it_world(), spaces.sql_world(), spaces.multi_world()
        if tier == "quick":
            return [
                SubSpace("multi/full/d3", mw, ("X", "L", "IS", "I1"), spaces.MULTI_FULL, 3),
                SubSpace("it/full/d3", iw, ("L", "E0"), spaces.IT_FULL, 3),
                SubSpace("sql/wide/d3", sw, ("X", "E"), spaces.SQL_WIDE, 3),
            ]
        return [
            SubSpace("multi/full/d4", mw, ("X", "L", "IS", "I1"), spaces.MULTI_FULL, 4),
            SubSpace("it/full/d4", iw, ("L",), spaces.IT_FULL, 4),
            SubSpace("sql/wide/d3", sw, ("X", "E", "X1"), spaces.SQL_WIDE, 3),
            SubSpace("sql/full/d4", sw, ("X",), spaces.SQL_FULL, 4),
        ]

    def judge(self, tr):
        op = _inner(tr.op)
        if tr.rel is None:
            if isinstance(tr.exc, (ColumnError, EngineError)):
                tr.count("raised:" + type(tr.exc).__name__)
            else:
                tr.count("raised_other:" + type(tr.exc).__name__)
            return False
        rel = tr.rel
        tr.outcome = walk.key(rel)
        engines = {str(n.engine) for n in walk.walk(rel)}
        tr.nontrivial = len(engines) >= 2 or tr.op[0] == "pe"
        for p in walk.wellformed_problems(rel):
            tr.violation("malformed-tree", f"{p}; tree={rel}")
            break
        # documented no-op calls return the relation itself
        noop = (
            op[0] == "proj_all"
            or (op[0] == "proj" and frozenset(op[1]) == tr.parent_val.cols)
            or (op[0] == "sort" and not op[1])
            or (op[0] == "xfer" and op[1] == str(tr.parent_rel.engine))
        )
        if noop:
            tr.count("documented_noops")
            if rel is not tr.parent_rel:
                tr.violation("noop-not-identity", f"documented no-op {tr.op} returned a different object: {rel}")
        # ill-formed calls must not return a tree
        if tr.val is None and not tr.ooc and tr.rej is not None:
            cross_engine_join = op[0] == "join" and tr.rej.classes == {"EngineError"}
            order_only = tr.rej.classes == {"RelationalAlgebraError"}
            if not cross_engine_join and not order_only:
                tr.violation(
                    "ill-formed-accepted",
                    f"call predicted ill-formed ({sorted(tr.rej.classes)}: {tr.rej.reason}) returned {rel}",
                )
        if tr.ooc or tr.val is None:
            return False
        return True


def run(tier, seed):
    res = explore(C14(), tier, seed)
    return {
        "coverage": coverage_from(res, RULE),
        "violations": res["violations"],
        "assumptions": [
            "structural invariants are read from public attributes only (operation, target, lhs, rhs, skip_to, engine, columns)",
            "a join whose operands live in different engines may legitimately succeed through backtracking; only its tree is judged",
        ],
    }


def replay(doc):
    return replay_case(C14(), doc["case"])
