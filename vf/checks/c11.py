"""C11 - SQL engine honours sort order for slices and for trailing sorts, or refuses."""

from __future__ import annotations

from .. import spaces, walk
from ..explore import Check, SubSpace, coverage_from, explore, replay_case
from ..refmodel import compare
from .common import SqlObs, rows_digest

RULE = (
    "every SQL-engine program over a sort/slice-heavy alphabet (total and partial sorts incl. on a calculated column, "
    "slices, projections, deduplication, selections, calculation, plus chain / join / materialization as probes for the "
    "refusal) up to the depth bound, in both physical scan orders; whenever the reference says the root order is "
    "determined (a total sort followed only by what C11 promises keeps it) the fetched row LIST must equal the "
    "reference list (statements whose ORDER BY sits only in a subquery are counted), and a following slice is judged as a determinate window; whenever the reference predicts a sort "
    "without a later slice buried under join/chain/materialization the call must raise; non-trivial = the comparison "
    "was a list comparison or a refusal probe; distinct = distinct (tree, row list) digests"
)


def top_level_order_by(text):
    """True if the statement carries an ORDER BY outside every parenthesis."""
    depth, out = 0, []
    for ch in text:
        if ch == "(":
            depth += 1
        elif ch == ")":
            depth -= 1
        elif depth == 0:
            out.append(ch)
    return "ORDER BY" in "".join(out).upper()


class C11(Check):
    pid = "C11"

    def subspaces(self, tier):
        sw = spaces.sql_world()
        if tier == "quick":
            return [
                SubSpace("sql/order/X/d4", sw, ("X",), spaces.SQL_ORDER, 4),
                SubSpace("sql/order/Y/d2", sw, ("Y", "Xunb"), spaces.SQL_ORDER, 2),
                SubSpace("sql/mini/X/d5", sw, ("X",), spaces.SQL_MINI, 5),
            ]
        return [
            SubSpace("sql/order/X/d4", sw, ("X",), spaces.SQL_ORDER, 4),
            SubSpace("sql/order/Y/d3", sw, ("Y", "Xunb"), spaces.SQL_ORDER, 3),
            SubSpace("sql/mini/X/d6", sw, ("X", "Y"), spaces.SQL_MINI, 6),
            SubSpace("sql/order-small/X/d5", sw, ("X",), spaces.SQL_ORDER_SMALL, 5),
        ]

    def judge(self, tr):
        if tr.ooc:
            tr.count("out_of_contract")
            return False
        if tr.val is None:
            must_refuse = "RelationalAlgebraError" in tr.rej.classes
            if must_refuse:
                tr.count("refusal_probes")
                tr.nontrivial = True
                tr.outcome = ("refusal", walk.key(tr.parent_rel), tr.op)
                if tr.rel is not None:
                    tr.violation(
                        "order-loss-not-refused",
                        f"a sort with no later slice was buried under {tr.op[0]} without an error; tree={tr.rel}",
                    )
            else:
                tr.count("rejected_other")
            return False
        if tr.rel is None:
            tr.count("rejected_by_library_only:" + type(tr.exc).__name__)
            return False
        if tr.op[0] == "mat":
            tr.count("terminal_materialization_not_executed")
            return False
        val = tr.val
        obs = SqlObs(tr.rel)
        if obs.failed:
            tr.count("execution_failed_not_judged_here")
            return True
        tr.outcome = (walk.key(tr.rel), rows_digest(obs.rows[0]))
        if val.det and not val.amb:
            tr.nontrivial = True
            tr.count("list_comparisons")
            if tr.op[0] == "slice":
                tr.count("determinate_slice_windows")
            # Informational only: the promised order is *requested* from the database only by an ORDER BY of the
            # outermost query.  After sort -> slice -> deduplication the engine leaves it in the subquery
            # (SELECT DISTINCT .. FROM (.. ORDER BY .. LIMIT ..)); C11 quantifies over the two scan orders of
            # the real database, on which the rows do come back in order, so this is counted, not judged
            # (DESIGN 7.4, round 5).
            if not top_level_order_by(obs.text) and len(val.rows) > 1:
                tr.count("order_promised_but_only_a_subquery_is_sorted")
        else:
            tr.count("order_not_promised:" + ("ambiguous" if val.amb else "bag"))
        for i, got in enumerate(obs.rows):
            strength, ok, detail = compare(val, got)
            if not ok:
                tr.violation(
                    "order" if strength == "list" else "rows",
                    f"scan order {'reversed' if i else 'default'}: {detail} ({strength}): expected "
                    f"{list(val.rows)[:8]} got {got[:8]} sql={obs.text[:300]}",
                )
                break
        return True


def run(tier, seed):
    res = explore(C11(), tier, seed)
    return {
        "coverage": coverage_from(res, RULE),
        "violations": res["violations"],
        "assumptions": [
            "order is demanded only where C11 promises it: total sort at the outermost query level, kept by slices, "
            "projections and deduplications after it (not by a deduplication after a projection that dropped a sort key), "
            "and by a selection/calculation only while the public Select marker still carries that sort",
            "SQLite with reverse_unordered_selects off/on provides the two legal physical scan orders",
        ],
    }


def replay(doc):
    return replay_case(C11(), doc["case"])
