"""C03 - preferred-engine (backtracking) insertion never changes relation content."""

from __future__ import annotations

import collections

from lsst.daf.relation import (
    BinaryOperationRelation,
    ColumnError,
    EngineError,
    Materialization,
    Transfer,
    UnaryOperationRelation,
)

from .. import findings, spaces, walk
from ..alphabet import L, R
from ..explore import Check, SubSpace, coverage_from, explore, replay_case
from ..realize import Ctx, RealProcessor
from ..refmodel import RefOOC, RefReject, canon_bag, compare, ref_apply
from ..spaces import S, pe

RULE = (
    "every multi-engine base tree reachable by programs over {transfers among s/e1/e2, materialization (lock), "
    "calculation, projection, selection, deduplication, sort, slice, chain} up to the base depth, then EVERY operation of "
    "the menu (incl. joins to a partner in the source engine) issued with preferred_engine in {s, e1} x the five "
    "backtrack/transfer/require_preferred_engine combinations; judged whenever the preferred engine differs from the "
    "tree's engine: (i) if the same call without a preferred engine succeeds the preferred call must not raise "
    "(no ColumnError, no row-order refusal caused by where backtracking tried to put it) except EngineError with "
    "require_preferred_engine and no transfer, or with transfer=True into an engine that does not support the "
    "operation's expression (the menu includes expressions only the current engine supports); (ii) equal columns; (iii) "
    "both trees are processed by the real Processor and executed, each compared with the reference and with each "
    "other, and the call is repeated on the already processed base tree (transfers holding payloads); (iv) engine "
    "placement by per-engine operation counts; plus a sub-space whose join partner shares a NON-join column with the "
    "base tree (reference undefined): the backtracking call is compared with the same call with backtrack=False; and a "
    "sub-space in which calculations re-create tags that projections hide while upstream selections still read the "
    "hidden originals (partial commutation below an existing projection); non-trivial = backtracking changed the tree upstream "
    "of the root; distinct = distinct (base tree, call) digests"
)

BASE = (
    ("xfer", "s"),
    ("xfer", "e1"),
    ("xfer", "e2"),
    ("mat", "m1"),
    ("calc", "x", spaces.NEG_A),
    ("proj", ("a", "b")),
    ("proj", ("b", "c")),
    ("sel", spaces.P_A_GT_1),
    ("dedup",),
    S((R("c"), True), (R("a"), True), (R("b"), True)),
    S((R("b"), False)),
    ("slice", 1, 3),
    ("chain", ("self",)),
    ("chain", ("X", ("xfer", "e1"), ("sel", spaces.P_C_GE_13))),
    ("chain", ("X", ("xfer", "e1"), ("calc", "x", spaces.NEG_A), ("proj", ("a", "b", "c")))),
)
MENU = (
    ("calc", "z", spaces.A_PLUS_B),
    ("calc", "c", spaces.NEG_A),
    ("calc", "x", spaces.A_PLUS_B),
    ("proj", ("a",)),
    ("proj", ("a", "c")),
    ("proj", ("b", "x")),
    ("proj", ()),
    ("proj", ("a", "b", "c")),
    ("proj", ("a", "b")),
    ("sel", spaces.P_B_EQ_1),
    ("sel", spaces.P_X_LT_0),
    ("sel", spaces.P_FALSE),
    ("dedup",),
    S((R("c"), False)),
    S((R("b"), False), (R("a"), True)),
    S((R("x"), True)),
    ("slice", 0, 2),
    ("slice", 2, None),
    # expressions only the *current* (iteration) engine supports: with preferred_engine=s backtracking cannot
    # place them, and the call must fall back to the root exactly as if no preferred engine had been given
    ("sel", spaces.P_ONLY_IT),
    ("calc", "z", spaces.C_ONLY_IT),
)
JOINS = (
    ("join", ("K",), None, False),
    ("join", ("K",), spaces.P_D_GT_A, False),
    ("join", ("Kc",), None, False),
    ("join", ("Kx",), None, False),
)


# "shadow" sub-space: the join partner Kn shares the NON-key column n with the base trees (n is then not a
# join column) with different values.  Which operand's n the joined relation carries is not documented, so
# the reference does not evaluate these joins; the property itself is relative, though, and is judged
# differentially: the call with backtracking must return the rows of the same call with backtrack=False.
SHADOW_BASE = (
    ("xfer", "s"),
    ("xfer", "e1"),
    ("calc", "n", spaces.NEG_A),
    ("sel", ("lt", R("n"), L(-1))),
    ("calc", "z", ("add", R("n"), R("b"))),
    S((R("n"), True), (R("c"), True)),
    ("proj", ("a", "n")),
)
SHADOW_JOINS = tuple(
    # (with the operands swapped the *tree* would be the fixed operand and the options would act on Kn)
    pe(("join", ("Kn",), pred, False), "s", bt, tr, False)
    for pred in (None, ("gt", R("n"), R("a")))
    for bt, tr in ((True, False), (True, True), (False, True))
)


# "hidden tag" sub-space: a calculation re-creates a tag that an existing projection hides while an
# operation further upstream still reads the hidden original; a preferred-engine projection then commutes
# only PARTIALLY below the existing projection (the upstream reader forces a wider one).
HIDDEN_BASE = (
    ("xfer", "e1"),
    ("sel", spaces.P_C_GE_13),
    ("sel", spaces.P_B_EQ_1),
    ("proj", ("a", "b")),
    ("proj", ("b",)),
    ("calc", "c", spaces.A_PLUS_B),
    ("dedup",),
)
HIDDEN_MENU = (
    ("proj", ("a", "c")),
    ("proj", ("a",)),
    ("proj", ("c",)),
    ("proj", ()),
    ("sel", ("lt", R("c"), L(4))),
    ("calc", "z", ("add", R("c"), L(1))),
    S((R("c"), True)),
)


def hidden_ops():
    return tuple(pe(op, "s", *f) for op in HIDDEN_MENU for f in spaces.FLAGSETS)


def pe_ops():
    out = []
    for op in MENU:
        for eng in ("s", "e1"):
            for f in spaces.FLAGSETS:
                out.append(pe(op, eng, *f))
    for j in JOINS:
        for bt, tr in ((True, False), (True, True), (False, True)):
            out.append(pe(j, "s", bt, tr, False))
    return tuple(out)


def world():
    from ..realize import LeafSpec, World

    w = spaces.multi_world()
    leaves = w.leaves + (
        LeafSpec("Kc", "s", ("a", "c"), ((1, 91), (2, 92), (2, 93))),
        LeafSpec("Kx", "s", ("x", "d"), ((-1, 7), (-2, 8), (-2, 9))),  # x: a key column the base trees *calculate*
        # a fourth column, so that a widened projection {a,b,c} pushed into the source is not a no-op
        LeafSpec("X4", "s", ("a", "b", "c", "n"), tuple(r + (10 * r[0],) for r in spaces.XROWS)),
        LeafSpec("Kn", "s", ("a", "n"), ((1, 5), (2, -6), (2, 7), (3, -3))),  # n: a NON-key column the base trees calculate
    )
    return World(engines=w.engines, leaves=leaves)


def restricted_away_from(inner, pref_kind):
    """True if the operation carries an expression restricted to an engine kind other than the preferred one."""
    from .. import alphabet as A

    exprs = []
    if inner[0] == "calc":
        exprs.append(inner[2])
    elif inner[0] == "sel":
        exprs.append(inner[1])
    elif inner[0] == "sort":
        exprs.extend(e for e, _ in inner[1])
    elif inner[0] == "join" and inner[2] is not None:
        exprs.append(inner[2])
    for e in exprs:
        r = A.engine_restriction(e)
        if r is not None and ("it" if r == "iteration" else "sql") != pref_kind:
            return True
    return False


def op_counts(rel):
    c = collections.Counter()
    for n in walk.spine_walk(rel):
        if isinstance(n, (UnaryOperationRelation, BinaryOperationRelation)):
            c[str(n.engine)] += 1
    return c


def op_keys_in(rel, engine):
    return sorted(
        repr(walk.opkey(n.operation))
        for n in walk.spine_walk(rel)
        if isinstance(n, (UnaryOperationRelation, BinaryOperationRelation)) and str(n.engine) == engine
    )


def evaluate(ctx, rel):
    out = RealProcessor(ctx).process(rel)
    return ctx.rows_of(out)


class C03(Check):
    pid = "C03"

    def __init__(self):
        self.pe_set = set(pe_ops()) | set(SHADOW_JOINS) | set(hidden_ops())

    def subspaces(self, tier):
        w = world()
        d = 4 if tier == "quick" else 5
        return [
            # thorough: also from a source with a column no operation mentions, so that every widened
            # projection pushed into the source is a real projection
            SubSpace(f"multi/base+pe/d{d}", w, ("X", "L") if tier == "quick" else ("X", "L", "X4"), BASE + pe_ops(), d),
            SubSpace(f"multi/shadow/d{d + 1}", w, ("X", "L"), SHADOW_BASE + SHADOW_JOINS, d + 1),
            SubSpace(f"multi/hidden-tag/d{d + 2}", w, ("X4",), HIDDEN_BASE + hidden_ops(), d + 2),
        ]

    def judge(self, tr):
        if tr.op not in self.pe_set:
            if tr.ooc or tr.rel is None or tr.val is None:
                return False
            return True
        _, inner, pref, bt, do_tr, req = tr.op
        parent = tr.parent_rel
        cur = str(parent.engine)
        if pref == cur:
            tr.count("preferred_is_current_skipped")
            return False
        if tr.ooc:
            if inner[0] == "join" and bt:
                self.judge_differential(tr, inner, pref, do_tr, req)
            else:
                tr.count("out_of_contract")
            return False
        ctx = tr.ctx
        # the same call at the root with no preferred engine
        plain_rel = plain_exc = None
        if inner[0] == "join":
            plain_ok = tr.val is not None
        else:
            try:
                plain_rel = ctx.apply(parent, inner)
                plain_ok = True
            except Exception as e:  # noqa: BLE001
                plain_exc, plain_ok = e, False
        if not plain_ok or tr.val is None:
            tr.count("operation_invalid_at_root_skipped")
            return False
        tr.count("judged_calls")
        tr.outcome = (walk.key(parent), tr.op)

        def counterfactual(name):
            try:
                with findings.REPAIRS[name]():
                    c2 = Ctx(tr.sub.world)
                    try:
                        r2 = c2.apply(c2.build(tr.prog), tr.op)
                    except EngineError:
                        # under the repair the move is refused; with require_preferred_engine that is the documented outcome
                        return bool(req and not do_tr)
                    got = evaluate(c2, r2)
                _, ok, _ = compare(tr.val, got)
                return ok
            except Exception:  # noqa: BLE001
                return False

        tr.counterfactual = counterfactual
        # (i) exceptions
        if tr.rel is None:
            e = tr.exc
            away = restricted_away_from(inner, tr.sub.world.kinds()[pref])
            if isinstance(e, EngineError) and req and not do_tr:
                tr.count("engine_error_as_documented")
            elif isinstance(e, EngineError) and inner[0] == "join" and not do_tr:
                tr.count("join_engine_error_no_transfer")
            elif isinstance(e, EngineError) and away and do_tr:
                # transfer=True asks for the operation to run in an engine that does not support its expression
                tr.count("engine_error_unsupported_in_preferred_engine")
            elif type(e).__name__ == "RelationalAlgebraError":
                # the documented row-order-loss refusal (C11) is legitimate only if it does not depend on where
                # backtracking tried to put the operation: the same call with backtrack=False must refuse as well
                # (a transfer back into the source engine is elided and re-exposes the sort)
                if bt:
                    try:
                        ctx.apply(parent, pe(inner, pref, False, do_tr, req))
                        refused_too = False
                    except Exception as e2:  # noqa: BLE001
                        refused_too = type(e2).__name__ == "RelationalAlgebraError" or (
                            isinstance(e2, EngineError) and not do_tr
                        )
                    if not refused_too:
                        tr.violation(
                            "valid-call-rejected",
                            f"row-order refusal caused by backtracking (the same call with backtrack=False succeeds): {str(e)[:200]}",
                        )
                        return False
                tr.count("order_loss_refusal_as_documented")
            elif isinstance(e, ColumnError):
                tr.violation("valid-call-rejected-ColumnError", f"valid at the root but preferred-engine call raised ColumnError: {str(e)[:200]}")
            else:
                tr.violation("valid-call-rejected", f"preferred-engine call raised {type(e).__name__}: {str(e)[:200]}")
            return False
        rel = tr.rel
        # (ii) columns
        want_cols = tr.val.cols
        if frozenset(t.qualified_name for t in rel.columns) != want_cols:
            tr.violation("columns", f"columns {sorted(t.qualified_name for t in rel.columns)} != {sorted(want_cols)}")
            return False
        # (iv) engine placement
        cp, cr = op_counts(parent), op_counts(rel)
        upstream_changed = op_keys_in(parent, pref) != op_keys_in(rel, pref)
        tr.nontrivial = upstream_changed
        if req or do_tr:
            for eng in set(cp) | set(cr):
                if eng != pref and cr[eng] > cp[eng]:
                    tr.violation("operation-outside-preferred-engine", f"{cr[eng] - cp[eng]} new operation(s) in engine {eng} (preferred {pref}); result={rel}")
                    return False
        if upstream_changed:
            tr.count("placed_upstream")
        # (iii) content
        try:
            got = evaluate(ctx, rel)
        except Exception as e:  # noqa: BLE001
            tr.violation("evaluation-raised", f"{type(e).__name__}: {str(e)[:200]}; result={rel}")
            return False
        strength, ok, detail = compare(tr.val, got)
        tr.count("compared:" + strength)
        if not ok:
            tr.violation(
                "rows",
                f"{detail} ({strength}): expected {list(tr.val.rows)[:6]} got {got[:6]}; result={rel}",
                order_only=canon_bag(got) == canon_bag(tr.val.rows),
            )
            return False
        # history variant: the same call issued on the *processed* base tree (its transfers hold payloads)
        if any(isinstance(n, Transfer) for n in walk.spine_walk(parent)):
            try:
                processed = RealProcessor(ctx).process(parent)
                rel_p = ctx.apply(processed, tr.op)
                got_p = evaluate(ctx, rel_p)
            except Exception as e:  # noqa: BLE001
                tr.violation("processed-base-raised", f"call on the processed base tree: {type(e).__name__}: {str(e)[:200]}")
                return False
            tr.count("processed_base_calls")
            strength, ok, detail = compare(tr.val, got_p)
            if not ok:
                tr.violation(
                    "rows-on-processed-base",
                    f"call issued on the already processed base tree: {detail} ({strength}): expected {list(tr.val.rows)[:6]} got {got_p[:6]}; result={rel_p}",
                    order_only=canon_bag(got_p) == canon_bag(tr.val.rows),
                )
                return False
        if plain_rel is not None and not tr.val.amb:
            try:
                got_plain = evaluate(ctx, plain_rel)
            except Exception as e:  # noqa: BLE001
                tr.count("plain_evaluation_failed_not_judged_here")
                return False
            if canon_bag(got_plain) != canon_bag(got):
                tr.violation("rows-vs-plain", f"preferred-engine result {got[:6]} differs from root application {got_plain[:6]}")
        return False


def _judge_differential(self, tr, inner, pref, do_tr, req):
    """Join whose partner shadows a non-join column (reference undefined): backtracking must not change the
    rows relative to the same call with backtrack=False, transfer=True."""
    ctx, parent = tr.ctx, tr.parent_rel
    try:
        plain = ctx.apply(parent, pe(inner, pref, False, True, False))
        want = evaluate(ctx, plain)
    except Exception:  # noqa: BLE001
        tr.count("out_of_contract")
        return
    tr.count("differential_judged_calls")
    tr.outcome = (walk.key(parent), tr.op)
    if tr.rel is None:
        if isinstance(tr.exc, EngineError) and not do_tr:
            tr.count("join_engine_error_no_transfer")
        else:
            tr.violation("valid-call-rejected", f"backtrack=False succeeds but the backtracking call raised {type(tr.exc).__name__}: {str(tr.exc)[:200]}")
        return
    tr.nontrivial = op_keys_in(parent, pref) != op_keys_in(tr.rel, pref)
    try:
        got = evaluate(ctx, tr.rel)
    except Exception as e:  # noqa: BLE001
        tr.violation("evaluation-raised", f"{type(e).__name__}: {str(e)[:200]}; result={tr.rel}")
        return
    if canon_bag(got) != canon_bag(want):
        tr.violation(
            "rows-vs-no-backtracking",
            f"backtracking changed the content: got {got[:6]}, the same call with backtrack=False gives {want[:6]}; result={tr.rel}",
        )


C03.judge_differential = _judge_differential


def run(tier, seed):
    res = explore(C03(), tier, seed)
    return {
        "coverage": coverage_from(res, RULE),
        "violations": res["violations"],
        "assumptions": [
            "'with transfer=True the result lives in the preferred engine' is read with the documented rule that the transfer "
            "is only added when backtracking fails: the result must be in the preferred engine unless the operation was "
            "placed upstream in it",
        ],
    }


def replay(doc):
    return replay_case(C03(), doc["case"])
