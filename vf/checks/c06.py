"""C06 - static metadata (columns, row bounds, triviality flags) is truthful."""

from __future__ import annotations

from lsst.daf.relation import BinaryOperationRelation, LeafRelation, MarkerRelation, UnaryOperationRelation, sql

from .. import spaces, treeref, walk
from ..explore import Check, SubSpace, coverage_from, explore, replay_case
from ..refmodel import RefOOC, compare
from .common import SqlObs, classify_basic, is_sql, rows_digest

RULE = (
    "every program over the iteration and SQL alphabets up to the depth bound from every leaf bound declaration "
    "(exact, loose (2,9), unbounded (0,None), single row, empty (0,0), empty loose (0,3)); per state: keys of every "
    "executed row == relation.columns, min_rows <= reference row count <= max_rows (count from the reference, not from "
    "execute()), is_join_identity => exactly one zero-column row, max_rows==0 => empty, executed rows == reference "
    "(so no shortcut keyed on the flags changed a result); thorough additionally interprets every sub-node of each "
    "result tree with the tree interpreter and checks its own bounds; non-trivial = bounds are not simply inherited "
    "(differ from the parent's); distinct = distinct (tree, bounds) digests"
)


# relations whose columns are all non-key (d, d2): DISTINCT still sees every column
TWIN_OPS = (
    ("join", ("E",), None, False),
    ("join", ("Etwin",), None, False),
    ("chain", ("E",)),
    ("chain", ("Etwin",)),
    ("proj", ("a", "b")),
    ("sel", ("gt", ("ref", "a"), ("lit", 1))),
    ("dedup",),
)
NONKEY_OPS = (
    ("proj", ("d",)),
    ("proj", ("d2",)),
    ("proj", ()),
    ("dedup",),
    ("sel", ("gt", ("ref", "d"), ("lit", 7))),
    ("slice", 1, None),
    ("slice", 0, 1),
    ("chain", ("self",)),
    ("calc", "y", ("neg", ("ref", "d"))),
    ("sort", ((("ref", "d"), False),)),
)


def check_bounds(rel, count, where, tr):
    lo, hi = rel.min_rows, rel.max_rows
    if count < lo or (hi is not None and count > hi):
        tr.violation("bounds", f"{where}: {count} rows outside declared [{lo}, {hi}] for {rel}")
        return False
    if rel.is_join_identity and not (count == 1 and not rel.columns):
        tr.violation("join-identity-flag", f"{where}: is_join_identity but {count} rows / columns {set(rel.columns)}")
        return False
    if rel.is_trivial != (rel.is_join_identity or rel.max_rows == 0):
        tr.violation("trivial-flag", f"{where}: is_trivial inconsistent")
        return False
    return True


class C06(Check):
    pid = "C06"
    deep = False

    def subspaces(self, tier):
        iw, sw = spaces.it_world(), spaces.sql_world()
        self.deep = tier == "thorough"
        if tier == "quick":
            return [
                SubSpace("it/full/d3", iw, spaces.IT_ROOTS_ALL, spaces.IT_FULL, 3),
                SubSpace("sql/full/d2", sw, spaces.SQL_ROOTS_ALL, spaces.SQL_FULL, 2),
                SubSpace("sql/reduced/d3", sw, spaces.SQL_ROOTS_ALL, spaces.SQL_REDUCED, 3),
                SubSpace("sql/nonkey/d3", sw, ("K", "K2"), NONKEY_OPS, 3),
                SubSpace("sql/twin/d3", sw, ("X", "Y"), TWIN_OPS, 3),
            ]
        return [
            SubSpace("it/full/d3", iw, spaces.IT_ROOTS_ALL, spaces.IT_FULL, 3),
            SubSpace("it/reduced/d4", iw, spaces.IT_ROOTS_ALL, spaces.IT_REDUCED, 4),
            SubSpace("sql/full/d3", sw, spaces.SQL_ROOTS_ALL, spaces.SQL_FULL, 3),
            SubSpace("sql/reduced/d4", sw, ("X", "Xloose", "Xunb", "Eloose"), spaces.SQL_REDUCED, 4),
            SubSpace("sql/nonkey/d4", sw, ("K", "K2"), NONKEY_OPS, 4),
            SubSpace("sql/twin/d4", sw, ("X", "Y"), TWIN_OPS, 4),
        ]

    def judge(self, tr):
        if not classify_basic(tr):
            return False
        rel, val = tr.rel, tr.val
        if tr.op[0] == "mat" and is_sql(rel):
            tr.count("terminal_materialization_not_executed")
            return False
        tr.nontrivial = (rel.min_rows, rel.max_rows) != (tr.parent_rel.min_rows, tr.parent_rel.max_rows)
        tr.outcome = (walk.key(rel), rel.min_rows, rel.max_rows)
        cols = frozenset(t.qualified_name for t in rel.columns)
        if cols != val.cols:
            tr.violation("columns", f"relation.columns {sorted(cols)} != reference {sorted(val.cols)}")
            return True
        if not val.amb or val.cdet:
            tr.count("count_checked")
            check_bounds(rel, len(val.rows), "root", tr)
        else:
            tr.count("count_undetermined_skipped")
        # executed rows: keys and content
        if is_sql(rel):
            obs = SqlObs(rel)
            if obs.failed:
                tr.count("execution_failed_not_judged_here")
                return True
            results = obs.rows
        else:
            try:
                results = [tr.ctx.rows_of(rel)]
            except Exception:  # noqa: BLE001
                tr.count("execution_failed_not_judged_here")
                return True
        for got in results:
            for r in got:
                if frozenset(r) != cols:
                    tr.violation("row-keys", f"executed row keys {sorted(r)} != relation.columns {sorted(cols)}")
                    return True
            strength, ok, detail = compare(val, got)
            tr.count("compared:" + strength)
            if not ok:
                tr.violation("shortcut-changed-result", f"{detail}: expected {list(val.rows)[:6]} got {got[:6]}")
                return True
        if self.deep:
            scen = tr.sub.world.scenario()
            by_payload = {id(p): n for n, p in tr.ctx.leaf_payloads.items()}
            for node in walk.walk(rel):
                if node is rel or isinstance(node, LeafRelation):
                    continue
                try:
                    v = treeref.eval_tree(node, scen, leaf_key=lambda leaf: by_payload.get(id(leaf.payload), leaf.name))
                except RefOOC:
                    tr.count("subnode_ooc")
                    continue
                except Exception as e:  # noqa: BLE001
                    tr.count("subnode_uninterpretable:" + type(e).__name__)
                    continue
                tr.count("subnodes_checked")
                ncols = frozenset(t.qualified_name for t in node.columns)
                if ncols != v.cols:
                    tr.violation("subnode-columns", f"sub-node {node}: columns {sorted(ncols)} != interpreted {sorted(v.cols)}")
                    break
                if not v.amb and not check_bounds(node, len(v.rows), f"sub-node {node}", tr):
                    break
        return True

    def sample(self, tr):
        if tr.rel is not None and tr.val is not None:
            tr.samples.append(
                {
                    "program": __import__("vf.alphabet", fromlist=["x"]).fmt_prog(tr.program()),
                    "min_rows": tr.rel.min_rows,
                    "max_rows": tr.rel.max_rows,
                    "reference_count": len(tr.val.rows),
                    "columns": sorted(tr.val.cols),
                }
            )


def run(tier, seed):
    res = explore(C06(), tier, seed)
    return {
        "coverage": coverage_from(res, RULE),
        "violations": res["violations"],
        "assumptions": [
            "leaf declarations are truthful by construction of the worlds (bounds consistent with actual content)",
            "row counts come from the reference evaluator; programs whose count is undetermined (selection/deduplication/"
            "join after a slice of an unordered SQL input) are only checked for columns",
        ],
    }


def replay(doc):
    c = C06()
    c.deep = True
    return replay_case(c, doc["case"])
