"""C04 - commutation reports are sound for every operation pair and target."""

from __future__ import annotations

import itertools

from lsst.daf.relation import (
    Calculation,
    ColumnError,
    Deduplication,
    Identity,
    Join,
    PartialJoin,
    Projection,
    Selection,
    Slice,
    Sort,
    UnaryOperationRelation,
)

from .. import alphabet as A
from .. import findings, libmap, par
from ..alphabet import L, R
from ..realize import Ctx, LeafSpec, World
from ..refmodel import RefOOC, RefReject, RefVal, canon_bag, ref_apply

RULE = (
    "all ordered pairs (existing, new) over the listed operation shapes (calculations incl. tags hidden by projections, "
    "projections incl. calculated and non-key tags, selections, deduplication, sorts, slices, partial joins with and "
    "without predicate and on either side, incl. a partner that shares a NON-join column with the target) on schema {a,b,c key; n non-key, determined by a}; the real new.commute(existing.apply(leaf)) is called once per "
    "pair and the returned UnaryCommutator is interpreted by the reference on ALL row lists of length <= 3 over the "
    "2x2x2 value cube (585 targets, all orders, duplicates) plus two rich lists; non-trivial = the commutator reports a "
    "full or partial move; distinct = distinct pairs"
)

ABC = ("a", "b", "c", "n")  # n is a non-key column determined by the key a (n = 10*a)
CUBE = [(i, j, k, 10 * i) for i in (0, 1) for j in (0, 1) for k in (0, 1)]
FIXED_ROWS = ((0, 5), (1, 6), (1, 7))
FIXED2_ROWS = ((0, 8), (1, 9))  # partner {a, c}: c collides with a target column a projection can hide

OPS = [
    ("calc", "x", ("neg", R("a"))),
    ("calc", "x", ("add", R("a"), R("b"))),
    ("calc", "c", ("neg", R("a"))),
    ("calc", "d", ("add", R("a"), R("b"))),
    ("calc", "y", ("mul", R("x"), L(2))),
    ("proj", ("a", "b")),
    ("proj", ("a",)),
    ("proj", ("b", "c")),
    ("proj", ()),
    ("proj", ("a", "x")),
    ("proj", ("b", "x")),
    ("proj", ("a", "b", "c")),
    ("proj", ("a", "n")),
    ("proj", ("n",)),
    ("proj", ("a", "b", "c", "n")),
    ("sort", ((R("n"), False), (R("b"), True))),
    ("sel", ("gt", R("n"), L(5))),
    ("calc", "y", ("add", R("n"), R("b"))),
    ("sel", ("gt", R("a"), L(0))),
    ("sel", ("eq", R("b"), R("c"))),
    ("sel", ("lt", R("x"), L(0))),
    ("sel", ("plit", False)),
    ("sel", ("and", ("lt", R("x"), L(0)), ("plit", False))),
    ("sel", ("and", ("gt", R("a"), L(0)), ("plit", False))),
    ("dedup",),
    ("sort", ((R("a"), True),)),
    ("sort", ((R("b"), False), (R("a"), True))),
    ("sort", ((R("x"), True),)),
    ("sort", ((("add", R("a"), R("b")), False),)),
    ("sort", ((R("b"), True),)),
    ("sort", ((R("c"), False),)),
    ("slice", 0, 1),
    ("slice", 1, 3),
    ("slice", 1, None),
    ("slice", 0, 0),
    ("join", ("F",), None, False),
    ("join", ("F",), ("gt", R("d"), R("b")), False),
    ("join", ("F",), None, True),
    ("join", ("F2",), None, False),
    ("join", ("F2",), None, True),
    ("calc", "e", ("neg", R("a"))),
    ("join", ("F3",), None, False),
    ("join", ("F3",), None, True),
    ("join", ("F4",), ("gt", R("g"), R("a")), False),
    ("join", ("F4",), None, False),
    # partner sharing the NON-key column n with the targets (n is then not a join column) with other values
    ("join", ("F5",), None, False),
    ("join", ("F5",), None, True),
    ("sel", ("lt", R("n"), L(5))),
]


def world(rows):
    return World(
        engines=(("e1", "it"),),
        leaves=(
            LeafSpec("T", "e1", ABC, tuple(rows)),
            LeafSpec("F", "e1", ("a", "d"), FIXED_ROWS),
            LeafSpec("F2", "e1", ("a", "c"), FIXED2_ROWS),
            LeafSpec("F3", "e1", ("e", "g"), ((0, 3), (-1, 4), (-1, 5))),
            LeafSpec("F5", "e1", ("a", "n"), ((0, 7), (1, -7), (1, 10))),
            LeafSpec("F4", "e1", ("g",), ((1,),)),  # exactly one row, shares no column with the targets  # keyed on a column targets only get by calculation
        ),
    )


def targets():
    ts = [t for n in range(0, 4) for t in itertools.product(CUBE, repeat=n)]
    ts.append(tuple(r + (10 * r[0],) for r in ((1, 0, 1), (0, 1, 0), (1, 0, 1), (0, 0, 0), (1, 1, 0), (0, 1, 1))))
    ts.append(tuple(r + (10 * r[0],) for r in ((1, 1, 1), (1, 1, 0), (0, 1, 1), (1, 1, 1), (0, 0, 1))))
    return ts


def lib_op(ctx, op):
    """Library UnaryOperation object for a mini-AST op."""
    k = op[0]
    if k == "calc":
        return Calculation(A.tag(op[1]), A.to_lib(op[2]))
    if k == "proj":
        return Projection(A.tags(op[1]))
    if k == "sel":
        return Selection(A.to_lib(op[1]))
    if k == "dedup":
        return Deduplication()
    if k == "sort":
        return Sort(tuple(A.sort_terms_to_lib(op[1])))
    if k == "slice":
        return Slice(op[1], op[2])
    if k == "join":
        from lsst.daf.relation import Predicate

        pred = A.to_lib(op[2]) if op[2] is not None else Predicate.literal(True)
        return Join(pred).partial(ctx.leaves[op[1][0]], is_lhs=op[3])
    raise AssertionError(op)


def _namer(ctx):
    def namer(fixed):
        for n, leaf in ctx.leaves.items():
            if leaf is fixed or leaf == fixed:
                return (n,)
        raise libmap.Unmappable("unknown fixed operand")

    return namer


def to_ref(ctx, lop):
    m = libmap.op_from_lib(lop, _namer(ctx))
    if m[0] == "pjoin":
        _, operand, pred, is_lhs, common = m
        return ("join", operand, pred, is_lhs) + ((common,) if common is not None else ())
    return m


def _work(pairs):
    viols = []
    stats = {"pairs": 0, "existing_not_unary": 0, "new_invalid": 0, "blocked": 0, "moved": 0, "partial": 0, "evals": 0, "ooc": 0, "noop_new": 0}
    tgts = targets()
    for ex, nw in pairs:

        def bad(kind, detail, rows=(), extra=None):
            v = {
                "kind": kind,
                "detail": detail,
                "case": {"existing": A.to_jsonable(ex), "new": A.to_jsonable(nw), "rows": A.to_jsonable(rows)},
                "program_str": f"existing={A.fmt_op(ex)} new={A.fmt_op(nw)} target={list(rows)[:4]}",
            }
            v["finding"] = findings.attribute("C04", v, {"existing": ex, "new": nw})
            viols.append(v)

        ctx = Ctx(world(()))
        leaf = ctx.leaves["T"]
        try:
            cur = lib_op(ctx, ex).apply(leaf)
        except ColumnError:
            stats["existing_not_unary"] += 1
            continue
        if not isinstance(cur, UnaryOperationRelation):
            stats["existing_not_unary"] += 1
            continue
        try:
            nw2, _ = lib_op(ctx, nw)._begin_apply(cur, None)
        except ColumnError:
            stats["new_invalid"] += 1
            continue
        if isinstance(nw2, Identity):
            stats["noop_new"] += 1
            continue
        stats["pairs"] += 1
        try:
            cm = nw2.commute(cur)
        except Exception as e:  # noqa: BLE001
            bad("commute-raised", f"{type(e).__name__}: {e}")
            continue
        if nw[0] == "join":
            # commute() is public: the partial join exactly as Relation.join builds it (common columns not yet
            # resolved by _begin_apply) must answer as well, and with the same verdict
            try:
                raw = lib_op(ctx, nw).commute(cur)
                stats["unresolved_join_commutes"] = stats.get("unresolved_join_commutes", 0) + 1
                if (raw.first is None) != (cm.first is None) or raw.done != cm.done:
                    bad("commute-depends-on-resolution", f"unresolved partial join reports first={raw.first} done={raw.done}, resolved one first={cm.first} done={cm.done}")
                    continue
            except Exception as e:  # noqa: BLE001
                bad("commute-raised", f"partial join with unresolved common columns: {type(e).__name__}: {e}")
                continue
        if cm.first is None and not cm.done:
            stats["blocked"] += 1
            if cm.second is not cur.operation:
                bad("blocked-but-second-changed", f"no move reported but second={cm.second} is not the existing operation")
            continue
        stats["moved" if cm.done else "partial"] += 1
        try:
            ex_ref = to_ref(ctx, cur.operation)
            nw_ref = to_ref(ctx, nw2)
            first_ref = None if cm.first is None else to_ref(ctx, cm.first)
            second_ref = to_ref(ctx, cm.second)
        except libmap.Unmappable as e:
            bad("uninterpretable", f"commutator holds an operation the reference cannot interpret: {e}")
            continue
        isjoin = any(r is not None and r[0] == "join" for r in (ex_ref, nw_ref, first_ref, second_ref))
        for rows in tgts:
            w = world(rows)
            scen = w.scenario()
            scen.shadow_ok = True  # commuted == original is judged under the engine's right-operand-wins convention
            t = scen.leaf_val("T")
            try:
                want = ref_apply(ref_apply(t, ex_ref, scen), nw_ref, scen)
            except RefReject as rj:
                bad("harness-illformed-original", f"original sequence ill-formed: {rj.reason}", rows)
                break
            except RefOOC:
                stats["ooc"] += 1
                continue
            step = "first"
            try:
                v = t
                if first_ref is not None:
                    v = ref_apply(v, first_ref, scen)
                step = "second"
                v = ref_apply(v, second_ref, scen)
                if not cm.done:
                    step = "new-again"
                    v = ref_apply(v, nw_ref, scen)
            except RefReject as rj:
                bad("ill-formed", f"reported {step} operation is not well-formed where it would be applied: {rj.reason}; first={cm.first} second={cm.second}", rows)
                break
            except RefOOC as oc:
                bad("contract-left", f"the original sequence is within the documented contract on this target but the commuted one is not ({oc}); first={cm.first} second={cm.second}", rows)
                break
            stats["evals"] += 1
            same = (canon_bag(v.rows) == canon_bag(want.rows)) if isjoin else (list(v.rows) == list(want.rows))
            if not same or v.cols != want.cols:
                bad(
                    "rows",
                    f"first={cm.first} second={cm.second} done={cm.done}: expected {list(want.rows)[:6]} got {list(v.rows)[:6]}",
                    rows,
                )
                break
    return {"stats": stats, "violations": viols}


def run(tier, seed):
    pairs = [(e, n) for e in OPS for n in OPS]
    results = par.pmap(_work, par.chunks(pairs, 64))
    stats = {}
    for r in results:
        for k, v in r["stats"].items():
            stats[k] = stats.get(k, 0) + v
    viols = [v for r in results for v in r["violations"]]
    cov = {
        "states": stats["pairs"] * len(targets()),
        "transitions": stats["evals"],
        "traces_validated_against_impl": stats["pairs"],
        "evaluations": stats["evals"],
        "distinct_nontrivial": stats["moved"] + stats["partial"],
        "stats": stats,
        "operation_shapes": [A.fmt_op(o) for o in OPS],
        "targets": len(targets()),
        "rule": RULE,
        "exhaustive": True,
        "samples": [{"existing": A.fmt_op(e), "new": A.fmt_op(n)} for e, n in pairs[:: max(1, len(pairs) // 10)]][:12],
    }
    return {
        "coverage": cov,
        "violations": viols,
        "assumptions": [
            "commutators are interpreted under list semantics (multisets for pairs involving a join)",
            "deduplication/join evaluation points outside the is_key contract are skipped and counted",
        ],
    }


def replay(doc):
    c = doc["case"]
    return _work([(A.from_jsonable(c["existing"]), A.from_jsonable(c["new"]))])["violations"]
