"""C07 - Processor evaluates multi-engine trees faithfully and only annotates payloads."""

from __future__ import annotations

import collections

from lsst.daf.relation import MarkerRelation, Materialization, Transfer

from .. import spaces, walk
from ..alphabet import L, R
from ..explore import Check, SubSpace, coverage_from, explore, replay_case
from ..realize import RealProcessor
from ..refmodel import RefOOC, RefReject, compare, ref_apply
from ..spaces import S
from .common import classify_basic, rows_digest

RULE = (
    "every program over a three-engine alphabet (SQL engine s, iteration engines e1/e2): transfers in every direction, "
    "materializations at every position incl. directly after a transfer, chains with a statically empty branch on either "
    "side, joins after a transfer back into SQL, 0-2 operations per engine segment, up to the depth bound; each tree is "
    "processed by a real Processor subclass that moves rows between SQLite and the iteration engine, then executed in "
    "its final engine and compared with the reference; the input tree's fingerprint is compared before/after (only "
    "materialization payload slots may change); hook calls are logged (source evaluable by its own engine, never on a "
    "trivial source); process() is repeated (3 calls per tree, and sibling trees share their parent's nodes) and no "
    "materialization may be computed twice; then the tree process() RETURNED is extended by a materialization (directly and "
    "after one more transfer into each other engine) and processed twice with the same oracles (history: build on a "
    "processed tree); the transfer hook returns a cacheable payload only when asked to (materialize_as), else one that "
    "re-evaluates its source on every read; non-trivial = tree contains a transfer or materialization; distinct = "
    "distinct (tree, rows) digests"
)

MULTI7 = (
    ("xfer", "s"),
    ("xfer", "e1"),
    ("xfer", "e2"),
    ("mat", "m1"),
    ("mat", "m2"),
    ("calc", "x", spaces.NEG_A),
    ("proj", ("a", "b")),
    ("sel", spaces.P_A_GT_1),
    ("sel", spaces.P_FALSE),
    ("dedup",),
    ("slice", 1, 3),
    ("slice", 0, 0),
    S((R("c"), True), (R("a"), True), (R("b"), True)),
    ("chain", ("self",)),
    ("chain", ("E",)),
    ("chain", ("E1",)),
    ("chain", ("E", ("xfer", "e1"))),
    ("chain", ("E",), True),
    ("chain", ("E1",), True),
    ("chain", ("D1",), True),
    ("chain", ("DS",), True),
    ("chain", ("L2",)),
    ("chain", ("E1", ("mat", "mE"))),
    ("chain", ("E", ("xfer", "e1"), ("mat", "mE")), True),
    ("proj", ()),
    ("chain", ("I1",)),
    ("chain", ("IS",), True),
    ("join", ("K",), None, False),
    ("join", ("K",), spaces.P_D_GT_A, True),
)
MULTI7_SMALL = tuple(
    o
    for o in MULTI7
    if o
    not in (("mat", "m2"), ("xfer", "e2"), ("sel", spaces.P_FALSE), ("chain", ("L2",)), ("join", ("K",), spaces.P_D_GT_A, True))
)


def fingerprint(rel):
    return [
        (type(n).__name__, str(n), None if not isinstance(n, MarkerRelation) or n.payload is None else id(n.payload))
        for n in walk.spine_walk(rel)
    ]


def reachable_materializations(rel):
    """Materializations that Processor.process must reach: not shielded by a node that already holds a
    payload, not below a statically trivial transfer or materialization (those get a canned payload and
    their upstream is deliberately left alone)."""
    out = []

    def w(n, shielded):
        if shielded:
            return
        if isinstance(n, Materialization):
            out.append(n)
            w(n.target, n.payload is not None or n.is_trivial)
        elif isinstance(n, Transfer):
            w(n.target, n.payload is not None or n.is_trivial)
        else:
            for c in walk.children(n)[:1] if isinstance(n, MarkerRelation) else walk.children(n):
                w(c, n.payload is not None)

    w(rel, False)
    return out


def materializations(rel):
    return [n for n in walk.walk(rel) if isinstance(n, Materialization)]


class C07(Check):
    pid = "C07"

    def subspaces(self, tier):
        mw = spaces.multi_world()
        if tier == "quick":
            return [
                SubSpace("multi/p7/d3", mw, ("X", "L", "EL", "EL1", "E", "E1"), MULTI7, 3),
                SubSpace("multi/p7-small/d4", mw, ("X", "L"), MULTI7_SMALL, 4),
                SubSpace("multi/twin/d3", mw, ("X", "L"), spaces.MULTI_TWIN, 3),
            ]
        return [
            SubSpace("multi/p7/d4", mw, ("X", "L", "EL", "EL1", "E", "E1"), MULTI7, 4),
            SubSpace("multi/p7-small/d5", mw, ("X", "L"), MULTI7_SMALL, 5),
            SubSpace("multi/twin/d4", mw, ("X", "L"), spaces.MULTI_TWIN, 4),
        ]

    def judge(self, tr):
        if not classify_basic(tr):
            return False
        rel, val, ctx = tr.rel, tr.val, tr.ctx
        multi = any(isinstance(n, (Transfer, Materialization)) for n in walk.spine_walk(rel))
        tr.nontrivial = multi
        before = fingerprint(rel)
        had_payload = {id(m) for m in materializations(rel) if m.payload is not None}
        outs = []
        for call in range(3):
            proc = RealProcessor(ctx, lazy_transfers=True)
            try:
                out = proc.process(rel)
            except Exception as e:  # noqa: BLE001
                tr.violation("process-raised", f"process() call #{call + 1}: {type(e).__name__}: {str(e)[:200]}", exc=type(e).__name__)
                return True
            tr.count("process_calls")
            for kind, src, trivial, name in proc.log:
                tr.count("hook:" + kind)
                if trivial:
                    tr.violation("hook-on-trivial-source", f"{kind} hook invoked for statically trivial source {src}")
                    return True
            # materialize_as may only name a materialization that sits directly on the transfer being executed
            direct = collections.Counter()
            for m in (n for n in walk.spine_walk(rel) if isinstance(n, Materialization)):  # occurrences, with repeats
                core = m.target
                while isinstance(core, MarkerRelation) and not isinstance(core, (Transfer, Materialization)):
                    core = core.target
                if isinstance(core, Transfer):
                    direct[m.name] += 1
            used = collections.Counter(name for kind, src, trivial, name in proc.log if kind == "transfer" and name is not None)
            for name, n in used.items():
                if n > direct[name]:
                    tr.violation(
                        "materialize-as-leaked",
                        f"transfer hook received materialize_as={name!r} {n} time(s) but only {direct[name]} materialization(s) of that name sit directly on a transfer",
                    )
                    return True
            # no materialization computed twice
            mats = {}
            for m in materializations(rel):
                mats.setdefault(m.name, []).append(m)
            for kind, src, trivial, name in proc.log:
                if name is not None and name in mats and all(id(m) in had_payload for m in mats[name]):
                    tr.violation("materialization-recomputed", f"{kind} hook ran for materialization {name!r} which already held a payload (call #{call + 1})")
                    return True
            had_payload = {id(m) for m in materializations(rel) if m.payload is not None}
            # "its materialization nodes gain payloads": every materialization that processing reaches
            for m in reachable_materializations(rel):
                if m.payload is None:
                    tr.violation(
                        "materialization-without-payload",
                        f"after process() call #{call + 1} materialization {m.name!r} of the input tree still has no payload",
                    )
                    return True
            if out.columns != rel.columns or out.engine != rel.engine:
                tr.violation("result-columns-or-engine", f"processed tree has columns {set(out.columns)} / engine {out.engine}, input {set(rel.columns)} / {rel.engine}")
                return True
            tr.aux["processed"] = out
            try:
                got = ctx.rows_of(out)
            except Exception as e:  # noqa: BLE001
                tr.violation("processed-tree-not-executable", f"call #{call + 1}: {type(e).__name__}: {str(e)[:200]}", exc=type(e).__name__)
                return True
            strength, ok, detail = compare(val, got)
            tr.count("compared:" + strength)
            if not ok:
                tr.violation("rows", f"call #{call + 1}: {detail} ({strength}): expected {list(val.rows)[:6]} got {got[:6]}; processed={out}")
                return True
            outs.append(got)
            after = fingerprint(rel)
            if len(after) != len(before):
                tr.violation("input-tree-changed", "node count of the input tree changed")
                return True
            for (t1, s1, p1), (t2, s2, p2) in zip(before, after):
                if (t1, s1) != (t2, s2):
                    tr.violation("input-tree-changed", f"{t1} {s1} became {t2} {s2}")
                    return True
                if p1 != p2 and not (t1 == "Materialization" and p1 is None):
                    tr.violation("payload-replaced", f"payload of {t1} {s1} changed")
                    return True
                if t1 == "Transfer" and p2 is not None:
                    tr.violation("transfer-got-payload", f"transfer node of the input tree gained a payload: {s1}")
                    return True
            before = after
        tr.outcome = (walk.key(rel), rows_digest(outs[0]))
        if out is not rel:
            self.follow_up(tr, out)
        return True

    def follow_up(self, tr, out):
        """History variant: the caller keeps building on the tree process() RETURNED (its transfers hold
        payloads): a materialization, directly or after one more transfer, then process() twice."""
        ctx, val = tr.ctx, tr.val
        scen = tr.sub.world.scenario()
        others = [name for name, _ in tr.sub.world.engines if name != val.eng]
        for seq in [(("mat", "mF"),)] + [(("xfer", e), ("mat", "mF")) for e in others]:
            rel2, val2 = out, val
            for fop in seq:
                try:
                    rel2 = ctx.apply(rel2, fop)
                except Exception:  # noqa: BLE001
                    rel2 = None
                try:
                    val2 = ref_apply(val2, fop, scen, None)
                except (RefReject, RefOOC):
                    val2 = None
                if rel2 is None or val2 is None:
                    break
            if rel2 is None or val2 is None:
                tr.count("followup_not_applicable")
                continue
            tr.count("followup_programs")
            what = "processed tree ; " + " ; ".join(f"{o[0]}({o[1]})" for o in seq)
            for call in range(2):
                proc = RealProcessor(ctx, lazy_transfers=True)
                try:
                    out2 = proc.process(rel2)
                except Exception as e:  # noqa: BLE001
                    tr.violation("followup-process-raised", f"{what}: process() call #{call + 1}: {type(e).__name__}: {str(e)[:200]}", exc=type(e).__name__)
                    return
                for kind, src, trivial, name in proc.log:
                    if trivial:
                        tr.violation("hook-on-trivial-source", f"{what}: {kind} hook invoked for statically trivial source {src}")
                        return
                    if call == 1 and name == "mF":
                        tr.violation("materialization-recomputed", f"{what}: {kind} hook ran again for materialization 'mF' on the second process()")
                        return
                for m in reachable_materializations(rel2):
                    if m.payload is None:
                        tr.violation("materialization-without-payload", f"{what}: after process() call #{call + 1} materialization {m.name!r} still has no payload")
                        return
                try:
                    got = ctx.rows_of(out2)
                except Exception as e:  # noqa: BLE001
                    tr.violation("processed-tree-not-executable", f"{what}: call #{call + 1}: {type(e).__name__}: {str(e)[:200]}", exc=type(e).__name__)
                    return
                strength, ok, detail = compare(val2, got)
                if not ok:
                    tr.violation("rows", f"{what}: call #{call + 1}: {detail} ({strength}): expected {list(val2.rows)[:6]} got {got[:6]}; processed={out2}")
                    return
                # a cached materialization must not re-read its upstream: lazy transfer payloads below it stay untouched
                lazies = [n.payload for n in walk.walk(out2) if isinstance(n, Transfer) and hasattr(n.payload, "reads")]
                before = [p.reads for p in lazies]
                ctx.rows_of(out2)
                if [p.reads for p in lazies] != before and isinstance(out2, Materialization):
                    tr.violation("materialization-not-cached", f"{what}: reading the processed materialization re-evaluated a transfer below it")
                    return


def run(tier, seed):
    res = explore(C07(), tier, seed)
    return {
        "coverage": coverage_from(res, RULE),
        "violations": res["violations"],
        "assumptions": [
            "the Processor harness (vf/realize.py RealProcessor) really executes hook sources through their own engine; a source "
            "that is not evaluable on its own surfaces as an exception inside the hook",
            "reference evaluator; rows compared as multisets unless the reference says the order is determined",
        ],
    }


def replay(doc):
    return replay_case(C07(), doc["case"])
