"""C15 - transfer/materialize simplifications keep content; locked trees are inviolate."""

from __future__ import annotations

from lsst.daf.relation import LeafRelation, MarkerRelation, Materialization, Transfer

from .. import findings, spaces, walk
from ..alphabet import L, R
from ..explore import Check, SubSpace, coverage_from, explore, replay_case
from ..realize import RealProcessor
from ..refmodel import compare
from ..spaces import S, pe
from .common import rows_digest

RULE = (
    "every program over {transfers among e1, e2, s; materializations m1/m2; calculation, projection, selection, "
    "deduplication, slice, chain} up to the base depth, plus every operation of a menu issued with every "
    "preferred-engine option on top; per transition: transfer to the own engine is the identical object; any transfer "
    "chain (there-and-back, three-hop) yields a relation in the requested engine whose Processor-evaluated rows equal "
    "the reference; materialized() of a leaf / materialization adds no Materialization node; for every locked node "
    "(leaf, materialization) of the input tree, any node of the output tree equal to it IS it, and any output "
    "materialization with its name equals it (nothing inserted upstream, cached payload stays shared); parent trees are "
    "processed first so their materializations hold payloads; non-trivial = input tree has a materialization or >= 2 "
    "transfers; distinct = distinct (tree, call) digests"
)

BASE = (
    ("xfer", "s"),
    ("xfer", "e1"),
    ("xfer", "e2"),
    ("mat", "m1"),
    ("mat", "m2"),
    ("calc", "x", spaces.NEG_A),
    ("proj", ("a", "b")),
    ("sel", spaces.P_A_GT_1),
    ("dedup",),
    ("slice", 1, 3),
    ("chain", ("self",)),
)
MENU = (
    ("calc", "z", spaces.A_PLUS_B),
    ("proj", ("a",)),
    ("sel", spaces.P_B_EQ_1),
    ("dedup",),
    S((R("c"), False)),
    ("slice", 0, 2),
)
PE = tuple(pe(op, eng, *f) for op in MENU for eng in ("s", "e1", "e2") for f in spaces.FLAGSETS) + tuple(
    pe(("join", ("K",), None, False), "s", bt, tr, False) for bt, tr in ((True, False), (True, True), (False, True))
)


def locked_nodes(rel):
    return [n for n in walk.walk(rel) if n.is_locked]


def same_engine_core(rel):
    """Strip same-engine non-materialization markers (Select etc.)."""
    while isinstance(rel, MarkerRelation) and not isinstance(rel, (Materialization, Transfer)):
        rel = rel.target
    return rel


class C15(Check):
    pid = "C15"

    def __init__(self):
        self.pe_set = set(PE)

    def subspaces(self, tier):
        mw = spaces.multi_world()
        d = 5 if tier == "quick" else 6
        return [
            SubSpace(f"multi/base+pe/d{d}", mw, ("X", "L"), BASE + PE, d),
            # statically empty sources, and parents that have NOT been processed (their materializations hold no
            # payload yet): a lock is a lock whether or not anything is cached on it (round 9)
            SubSpace(f"multi/empty-unprocessed/d{d - 1}", mw, ("E1", "E", "D1", "EL1"), BASE + PE, d - 1),
            # operands holding a materialization are left to C07: the harness rebuilds an operand on every
            # application, which would itself put two equal materializations into one scenario
            SubSpace(f"multi/twin/d{d - 1}", mw, ("X", "L"), tuple(o for o in spaces.MULTI_TWIN if "mat" not in repr(o[1:]) or o[0] == "mat"), d - 1),
        ]

    def enter_state(self, ctx, sub, prog, rel, val):
        # fill the payloads of the parent's materializations so that sharing is observable
        self._parent_processed = False
        if "unprocessed" in sub.label:
            return
        if any(isinstance(n, Materialization) for n in walk.walk(rel)):
            try:
                RealProcessor(ctx).process(rel)
                self._parent_processed = True
            except Exception:  # noqa: BLE001
                pass

    def judge(self, tr):
        if tr.ooc or tr.rel is None or tr.val is None:
            if tr.rel is None:
                tr.count("raised:" + type(tr.exc).__name__)
            return False
        parent, rel, ctx = tr.parent_rel, tr.rel, tr.ctx
        op = tr.op[1] if tr.op[0] == "pe" else tr.op
        if op[0] == "mat" and any(isinstance(n, Materialization) and n.name == op[1] for n in walk.walk(parent)):
            # every materialization in a scenario gets its own name (the name is the lookup key of the locked-node oracle)
            tr.count("duplicate_materialization_name_skipped")
            return False
        mats_in = sum(1 for n in walk.spine_walk(parent) if isinstance(n, Materialization))
        xfers_in = sum(1 for n in walk.spine_walk(parent) if isinstance(n, Transfer))
        tr.nontrivial = mats_in > 0 or xfers_in >= 2
        tr.outcome = (walk.key(parent), tr.op)
        # transfers
        if op[0] == "xfer":
            tr.count("transfer_calls")
            if op[1] == str(parent.engine):
                if rel is not parent:
                    tr.violation("self-transfer-not-identity", f"transfer to the own engine returned a different object: {rel}")
            if str(rel.engine) != op[1]:
                tr.violation("transfer-wrong-engine", f"requested {op[1]} but result lives in {rel.engine}")
            if xfers_in and sum(1 for n in walk.spine_walk(rel) if isinstance(n, Transfer)) <= xfers_in - 1:
                tr.count("transfer_simplified_away")
        # materialization of a leaf / materialization adds nothing
        if op[0] == "mat":
            core = same_engine_core(parent)
            mats_out = sum(1 for n in walk.spine_walk(rel) if isinstance(n, Materialization))
            if isinstance(core, (LeafRelation, Materialization)):
                tr.count("materialize_of_locked")
                if mats_out != mats_in:
                    tr.violation("materialization-added-over-locked", f"materialized() of {type(core).__name__} added a Materialization: {rel}")
        # locked nodes inviolate
        locked = locked_nodes(parent)
        out_nodes = list(walk.walk(rel))
        # leaves the scenario itself supplies (a twin leaf brought in as a chain operand compares equal to its
        # sibling without being a copy of it)
        supplied = {id(n) for leaf in ctx.leaves.values() for n in walk.walk(leaf)}
        for n in locked:
            for m in out_nodes:
                if m is not n and type(m) is type(n) and m == n and id(m) not in supplied:
                    tr.violation("locked-node-copied", f"output tree holds an equal but distinct copy of locked node {n}")
                    return False
            if isinstance(n, Materialization):
                for m in out_nodes:
                    if isinstance(m, Materialization) and m.name == n.name and m is not n:
                        same_name_inputs = [x for x in locked if isinstance(x, Materialization) and x.name == n.name]
                        if not any(m is x for x in same_name_inputs) and m.target != n.target and not any(
                            m.target == x.target for x in same_name_inputs
                        ):
                            tr.violation(
                                "inserted-upstream-of-locked",
                                f"output materialization {m.name!r} has a different upstream than the locked input node: {m.target} vs {n.target}",
                            )
                            return False
        tr.count("locked_nodes_checked", len(locked))
        # content (of preferred-engine calls it is C03's business)
        if tr.op in self.pe_set:
            return False
        if "unprocessed" in tr.sub.label:
            # no Processor run at all in this sub-space: evaluating a sibling would cache payloads on the
            # parent's materializations, which every later call of this state shares
            return True
        try:
            out = RealProcessor(ctx).process(rel)
            got = ctx.rows_of(out)
        except Exception as e:  # noqa: BLE001
            tr.count("evaluation_failed_not_judged_here:" + type(e).__name__)
            return tr.op not in self.pe_set
        strength, ok, detail = compare(tr.val, got)
        tr.count("compared:" + strength)
        if not ok:
            tr.violation("rows", f"{detail} ({strength}): expected {list(tr.val.rows)[:6]} got {got[:6]}; tree={rel}", order_only=False)
        return tr.op not in self.pe_set


def run(tier, seed):
    res = explore(C15(), tier, seed)
    return {
        "coverage": coverage_from(res, RULE),
        "violations": res["violations"],
        "assumptions": [
            "equality of relations is the library's dataclass equality; identity is Python object identity",
            "content is evaluated through the real Processor",
        ],
    }


def replay(doc):
    return replay_case(C15(), doc["case"])
