"""C17 - SQL conform is idempotent, content-preserving, keeps SELECT markers coherent."""

from __future__ import annotations

import itertools

from lsst.daf.relation import (
    BinaryOperationRelation,
    Calculation,
    Chain,
    Deduplication,
    Join,
    LeafRelation,
    Predicate,
    Projection,
    RelationalAlgebraError,
    Selection,
    Slice,
    Sort,
    UnaryOperationRelation,
    sql,
)

from .. import alphabet as A
from .. import findings, par, spaces, walk
from ..alphabet import L, R
from ..explore import Check, SubSpace, coverage_from, explore, replay_case
from ..realize import Ctx
from ..refmodel import RefOOC, RefReject, compare, ref_apply
from .common import SqlObs, classify_basic

RULE = (
    "(a) every SQL-engine state of the program exploration: conform(x) is x, and every Select marker in the tree is "
    "coherent (nodes between target and skip_to are exactly the recorded slice, deduplication, projection, sort in that "
    "order, a recorded do-nothing may be absent; is_compound <=> skip_to is a chain); (b) raw trees assembled bottom-up "
    "from bare LeafRelations with operation._finish_apply / direct binary nodes (no Select anywhere), all sequences up "
    "to the depth bound incl. chain and join nodes with raw operands: conform(raw) evaluates to the reference rows of "
    "the raw sequence on SQLite, conform(conform(raw)) is conform(raw), markers coherent; (b2) raw chain / join nodes "
    "over every ordered pair of 13 API-built (already conformed) operands incl. sorted, sliced, deduplicated and compound "
    "ones: same oracle, plus refusal where an operand carries a sort without a slice; non-trivial = tree has >= 2 "
    "operations; distinct = distinct tree digests"
)


def select_incoherence(s):
    """None if the Select marker is coherent, else a description."""
    node = s.target
    slots = []
    if s.has_slice:
        slots.append(("slice", s.slice))
    if s.deduplication is not None:
        slots.append(("deduplication", s.deduplication))
    if s.projection is not None:
        slots.append(("projection", s.projection))
    if s.has_sort:
        slots.append(("sort", s.sort))
    for name, recorded in slots:
        if isinstance(node, UnaryOperationRelation) and node.operation == recorded:
            node = node.target
            continue
        if name == "projection" and recorded.columns == node.columns:
            continue  # a recorded do-nothing may be absent
        return f"recorded {name} {recorded} is not the next node on the marker's spine (found {node})"
    if node is not s.skip_to:
        return f"skip target {s.skip_to} is not reached from the marker's target spine (ended at {node})"
    is_chain = isinstance(s.skip_to, BinaryOperationRelation) and isinstance(s.skip_to.operation, Chain)
    if s.is_compound != is_chain:
        return f"is_compound={s.is_compound} but skip target {'is' if is_chain else 'is not'} a chain"
    return None


def tree_incoherences(rel):
    out = []
    for n in walk.walk(rel):
        if isinstance(n, sql.Select):
            why = select_incoherence(n)
            if why:
                out.append((n, why))
    return out


class C17(Check):
    pid = "C17"

    def subspaces(self, tier):
        sw = spaces.sql_world()
        if tier == "quick":
            return [
                SubSpace("sql/full/X/d3", sw, ("X",), spaces.SQL_FULL, 3),
                SubSpace("sql/full/d2", sw, ("E", "X1"), spaces.SQL_FULL, 2),
                SubSpace("sql/reduced/X/d4", sw, ("X",), spaces.SQL_REDUCED, 4),
            ]
        return [
            SubSpace("sql/wide/X/d3", sw, ("X", "E"), spaces.SQL_WIDE, 3),
            SubSpace("sql/full/X/d4", sw, ("X",), spaces.SQL_FULL, 4),
            SubSpace("sql/reduced/X/d5", sw, ("X",), spaces.SQL_REDUCED, 5),
        ]

    def judge(self, tr):
        if not classify_basic(tr):
            return False
        rel = tr.rel
        tr.nontrivial = tr.depth >= 2
        tr.outcome = walk.key(rel)
        if not isinstance(rel, sql.Select):
            tr.violation("not-conformed", f"factory returned a {type(rel).__name__}, not a Select: {rel}")
            return True
        try:
            c = rel.engine.conform(rel)
        except Exception as e:  # noqa: BLE001
            tr.violation("conform-raised", f"{type(e).__name__}: {e}")
            return True
        if c is not rel:
            tr.violation("conform-not-identity", f"conform() of an API-built relation returned a different object: {c}")
        for node, why in tree_incoherences(rel):
            tr.violation("select-incoherent", why, node=str(node))
            break
        return tr.op[0] != "mat"


# ----------------------------------------------------------------------------- (b) raw trees
RAW_OPS = (
    ("calc", "x", ("neg", R("a"))),
    ("proj", ("a", "b")),
    ("proj", ("b", "c")),
    ("proj", ()),
    ("sel", ("gt", R("a"), L(1))),
    ("sel", ("plit", False)),
    ("dedup",),
    ("sort", ((R("c"), True), (R("a"), True), (R("b"), True))),
    ("sort", ((R("b"), False),)),
    ("slice", 1, 3),
    ("slice", 2, None),
    ("chain", ("Y",)),
    ("chain", ("self",)),
    ("chain", ("Y", ("sel", ("gt", R("a"), L(1))))),
    ("join", ("K",), None, False),
    ("join", ("K",), ("gt", R("d"), R("a")), True),
    ("join", ("Y", ("proj", ("a", "b"))), None, False),
)


def raw_leaf(ctx, name):
    spec = {s.name: s for s in ctx.world.leaves}[name]
    lo, hi = spec.bounds()
    return LeafRelation(
        ctx.engines[spec.engine], A.tags(spec.cols), ctx.leaf_payloads[name], name=name, min_rows=lo, max_rows=hi
    )


def raw_apply(ctx, rel, op):
    """Assemble one raw node without the engine's help."""
    k = op[0]
    if k == "calc":
        return Calculation(A.tag(op[1]), A.to_lib(op[2]))._finish_apply(rel)
    if k == "proj":
        return Projection(A.tags(op[1]))._finish_apply(rel)
    if k == "sel":
        return Selection(A.to_lib(op[1]))._finish_apply(rel)
    if k == "dedup":
        return Deduplication()._finish_apply(rel)
    if k == "sort":
        return Sort(tuple(A.sort_terms_to_lib(op[1])))._finish_apply(rel)
    if k == "slice":
        return Slice(op[1], op[2])._finish_apply(rel)
    if k == "chain":
        other = rel if op[1] == ("self",) else raw_build(ctx, op[1])
        return Chain()._finish_apply(rel, other)
    if k == "join":
        other = raw_build(ctx, op[1])
        lhs, rhs = (other, rel) if op[3] else (rel, other)
        common = frozenset(t for t in lhs.columns & rhs.columns if t.is_key)
        pred = A.to_lib(op[2]) if op[2] is not None else Predicate.literal(True)
        return Join(pred, min_columns=common, max_columns=common)._finish_apply(lhs, rhs)
    raise AssertionError(op)


def raw_build(ctx, prog):
    rel = raw_leaf(ctx, prog[0])
    for op in prog[1:]:
        rel = raw_apply(ctx, rel, op)
    return rel


def _raw_work(progs):
    w = spaces.sql_world()
    scen = w.scenario()
    viols = []
    stats = {"raw_trees": 0, "ref_rejected": 0, "ooc": 0, "conform_refused_order_loss": 0, "compared": 0, "weak": 0, "nontrivial": 0}
    keys = set()
    for prog in progs:

        def bad(kind, detail, rel=None):
            v = {"kind": kind, "detail": detail, "case": {"raw_program": A.to_jsonable(prog)}, "program_str": "raw: " + A.fmt_prog(prog)}
            v["finding"] = findings.attribute("C17", v, {"rel": rel})
            viols.append(v)

        # reference value of the raw sequence (SQL semantics; sorts buried by later operations lose their effect)
        try:
            val = scen.leaf_val(prog[0])
            for op in prog[1:]:
                val = ref_apply(val, op, scen, None)
        except RefReject as rj:
            if rj.classes == {"RelationalAlgebraError"}:
                # ill-formed only because of a pending sort: conform is entitled to refuse
                val = None
            else:
                stats["ref_rejected"] += 1
                continue
        except RefOOC:
            stats["ooc"] += 1
            continue
        ctx = Ctx(w)
        try:
            raw = raw_build(ctx, prog)
        except Exception as e:  # noqa: BLE001
            bad("raw-build-raised", f"{type(e).__name__}: {e}")
            continue
        stats["raw_trees"] += 1
        eng = ctx.engines["s"]
        try:
            c = eng.conform(raw)
        except RelationalAlgebraError as e:
            if type(e) is RelationalAlgebraError:
                stats["conform_refused_order_loss"] += 1
                continue
            bad("conform-raised", f"{type(e).__name__}: {e}")
            continue
        except Exception as e:  # noqa: BLE001
            bad("conform-raised", f"{type(e).__name__}: {e}")
            continue
        keys.add(walk.digest(walk.key(c)))
        if len(prog) > 2:
            stats["nontrivial"] += 1
        if eng.conform(c) is not c:
            bad("conform-not-idempotent", f"conform(conform(raw)) is a different object for {c}", c)
        for node, why in tree_incoherences(c):
            bad("select-incoherent", why, c)
            break
        if val is None:
            continue
        obs = SqlObs(c)
        if obs.failed:
            phase, e = obs.failure()
            bad(f"{phase}-raised", f"{type(e).__name__}: {str(e)[:200]}", c)
            continue
        for got in obs.rows:
            # raw trees give no ordering promise beyond what the conformed root Select carries: compare as bag
            strength, ok, detail = compare(val, got, force_bag=True)
            stats["weak" if strength == "weak" else "compared"] += 1
            if not ok:
                bad("rows", f"{detail}: expected {list(val.rows)[:6]} got {got[:6]} sql={obs.text[:200]}", c)
                break
    return {"stats": stats, "violations": viols, "keys": keys}


# (b2) raw binary nodes whose operands were themselves built through the API (already conformed Selects)
API_OPERANDS = (
    ("X",),
    ("X", ("sort", ((R("c"), True), (R("a"), True), (R("b"), True))), ("slice", 0, 2)),
    ("X", ("slice", 2, None)),
    ("X", ("dedup",)),
    ("X", ("sel", ("gt", R("a"), L(1)))),
    ("X", ("proj", ("a", "b"))),
    ("Y",),
    ("Y", ("sort", ((R("c"), False),)), ("slice", 1, 3)),
    ("Y", ("chain", ("X",))),
    ("Y", ("proj", ("a", "b")), ("dedup",)),
    ("K",),
    ("K", ("slice", 1, None)),
    ("K", ("sort", ((R("d"), True),))),
)


def _api_pairs_work(pairs):
    w = spaces.sql_world()
    scen = w.scenario()
    viols = []
    stats = {"pairs": 0, "ref_rejected": 0, "ooc": 0, "conform_refused_order_loss": 0, "compared": 0, "weak": 0}
    keys = set()
    for kind, pa, pb in pairs:

        def bad(k, detail, rel=None):
            v = {
                "kind": k,
                "detail": detail,
                "case": {"api_pair": [kind, A.to_jsonable(pa), A.to_jsonable(pb)]},
                "program_str": f"raw {kind} of API-built ({A.fmt_prog(pa)}) and ({A.fmt_prog(pb)})",
            }
            v["finding"] = findings.attribute("C17", v, {"rel": rel})
            viols.append(v)

        from ..refmodel import ref_run

        try:
            va = ref_run(pa, scen)
            val = ref_apply(va, (kind, pb) if kind == "chain" else ("join", pb, None, False), scen, None)
        except RefReject as rj:
            if rj.classes == {"RelationalAlgebraError"}:
                val = None
            else:
                stats["ref_rejected"] += 1
                continue
        except RefOOC:
            stats["ooc"] += 1
            continue
        ctx = Ctx(w)
        a, b = ctx.build(pa), ctx.build(pb)
        stats["pairs"] += 1
        if kind == "chain":
            raw = Chain()._finish_apply(a, b)
        else:
            common = frozenset(t for t in a.columns & b.columns if t.is_key)
            raw = Join(Predicate.literal(True), min_columns=common, max_columns=common)._finish_apply(a, b)
        eng = ctx.engines["s"]
        try:
            c = eng.conform(raw)
        except RelationalAlgebraError as e:
            if type(e) is RelationalAlgebraError:
                stats["conform_refused_order_loss"] += 1
                if val is not None:
                    bad("conform-refused", f"conform() refused a tree whose operands carry no pending sort: {e}")
                continue
            bad("conform-raised", f"{type(e).__name__}: {e}")
            continue
        except Exception as e:  # noqa: BLE001
            bad("conform-raised", f"{type(e).__name__}: {e}")
            continue
        keys.add(walk.digest(walk.key(c)))
        if val is None:
            bad("order-loss-not-refused", f"conform() accepted a binary node over an operand with a sort and no slice: {c}", c)
            continue
        if eng.conform(c) is not c:
            bad("conform-not-idempotent", f"conform(conform(raw)) is a different object for {c}", c)
        for node, why in tree_incoherences(c):
            bad("select-incoherent", why, c)
            break
        obs = SqlObs(c)
        if obs.failed:
            phase, e = obs.failure()
            bad(f"{phase}-raised", f"{type(e).__name__}: {str(e)[:200]}", c)
            continue
        for got in obs.rows:
            strength, ok, detail = compare(val, got, force_bag=True)
            stats["weak" if strength == "weak" else "compared"] += 1
            if not ok:
                bad("rows", f"{detail}: expected {list(val.rows)[:6]} got {got[:6]} sql={obs.text[:200]}", c)
                break
    return {"stats": stats, "violations": viols, "keys": keys}


def api_pairs():
    return [(k, a, b) for k in ("chain", "join") for a in API_OPERANDS for b in API_OPERANDS]


def raw_programs(depth):
    out = []
    for d in range(1, depth + 1):
        for ops in itertools.product(RAW_OPS, repeat=d):
            out.append(("X",) + ops)
    return out


def run(tier, seed):
    res = explore(C17(), tier, seed)
    progs = raw_programs(3 if tier == "quick" else 4)
    results = par.pmap(_raw_work, par.chunks(progs, 64))
    stats = {}
    keys = set()
    for r in results:
        keys |= r["keys"]
        for k, v in r["stats"].items():
            stats[k] = stats.get(k, 0) + v
    pair_results = par.pmap(_api_pairs_work, par.chunks(api_pairs(), 32))
    pstats = {}
    for r in pair_results:
        keys |= r["keys"]
        for k, v in r["stats"].items():
            pstats[k] = pstats.get(k, 0) + v
    viols = res["violations"] + [v for r in results for v in r["violations"]] + [v for r in pair_results for v in r["violations"]]
    cov = coverage_from(res, RULE)
    cov["raw_binary_over_api_operands"] = dict(pstats, operands=[A.fmt_prog(p) for p in API_OPERANDS])
    stats["raw_trees"] += pstats["pairs"]
    cov["raw"] = dict(stats, programs=len(progs), distinct_conformed_trees=len(keys), ops=[A.fmt_op(o) for o in RAW_OPS])
    cov["states"] += len(keys)
    cov["transitions"] += stats["raw_trees"]
    cov["evaluations"] += stats["raw_trees"]
    cov["traces_validated_against_impl"] += stats["raw_trees"]
    cov["distinct_nontrivial"] += stats["nontrivial"]
    return {
        "coverage": cov,
        "violations": viols,
        "assumptions": [
            "raw trees are assembled with the documented customization hook operation._finish_apply and direct binary nodes",
            "rows of conform(raw) are compared as multisets (a raw tree carries no ordering promise)",
        ],
    }


def replay(doc):
    c = doc["case"]
    if "raw_program" in c:
        return _raw_work([A.from_jsonable(c["raw_program"])])["violations"]
    if "api_pair" in c:
        k, a, b = c["api_pair"]
        return _api_pairs_work([(k, A.from_jsonable(a), A.from_jsonable(b))])["violations"]
    return replay_case(C17(), c)
