"""C12 - column expressions mean the same thing in every engine (three-way agreement)."""

from __future__ import annotations

import itertools

import sqlalchemy
from lsst.daf.relation import iteration, sql

from .. import alphabet as A
from .. import findings, par
from ..alphabet import L, R
from ..realize import db

ROWS = [{"a": a, "b": b} for a in range(-3, 4) for b in range(-3, 4)]
BATCH = 120

RULE = (
    "all scalar expressions of depth <= 2 over refs {a,b}, literals {-2,0,3}, neg/add/sub/mul; all six comparisons over "
    "pairs of scalar expressions of depth <= 1; AND/OR (arity 0-3) / NOT over a base set of atoms nested to depth 2; "
    "membership in all ranges start,stop in [-4,4] x step in {-3..-1,1..3} and in sequences of 0-3 expressions; each "
    "evaluated on all 49 rows a,b in [-3,3] by (i) the iteration engine's converted callable, (ii) the SQL engine's "
    "conversion run by SQLite, (iii) the reference interpreter; non-trivial = expression contains at least one operator; "
    "distinct = distinct expressions"
)


def scalars(depth):
    a0 = [R("a"), R("b"), L(-2), L(0), L(3)]
    d1 = [("neg", x) for x in a0] + [(op, x, y) for op in ("add", "sub", "mul") for x in a0 for y in a0]
    s1 = a0 + d1
    if depth <= 1:
        return s1
    d2 = [("neg", x) for x in d1] + [
        (op, x, y) for op in ("add", "sub", "mul") for x in s1 for y in s1 if not (x in a0 and y in a0)
    ]
    return s1 + d2


def expressions(tier):
    out = []
    s1 = scalars(1)
    out += [("scalar", e) for e in scalars(2)]
    out += [("cmp", (c, x, y)) for c in ("eq", "ne", "lt", "le", "gt", "ge") for x in s1 for y in s1]
    base = [
        ("gt", R("a"), L(0)),
        ("le", R("b"), R("a")),
        ("eq", R("a"), R("b")),
        ("plit", True),
        ("plit", False),
        ("in_range", R("a"), (0, 3, 2)),
    ]

    def logic(pool, max_arity):
        res = [("not", p) for p in pool]
        for k in ("and", "or"):
            for n in range(0, max_arity + 1):
                res += [(k,) + c for c in itertools.product(pool, repeat=n)]
        # the node classes built directly with the arities the factories fold away (round 10)
        for k in ("andn", "orn"):
            for n in (0, 1):
                res += [(k,) + c for c in itertools.product(pool, repeat=n)]
        return res

    l1_full = logic(base, 3)
    out += [("logic1", p) for p in l1_full]
    l1_small = logic(base, 2)
    pool2 = base + (l1_full if tier == "thorough" else l1_small)
    l2 = [("not", p) for p in l1_full]
    for k in ("and", "or"):
        l2 += [(k, p, q) for p in pool2 for q in pool2 if not (p in base and q in base)]
    out += [("logic2", p) for p in l2]
    items = [R("a"), ("add", R("a"), R("b")), ("neg", R("a"))]
    for start in range(-4, 5):
        for stop in range(-4, 5):
            for step in (-3, -2, -1, 1, 2, 3):
                out += [("range", ("in_range", i, (start, stop, step))) for i in items]
    elems = [R("a"), R("b"), L(0), L(1), L(2), L(3), ("add", R("a"), R("b")), ("neg", R("a"))]
    seq_items = [R("a"), R("b"), ("sub", R("a"), R("b"))]
    for n in range(0, 4):
        for combo in itertools.product(elems, repeat=n):
            out += [("seq", ("in_seq", i, combo)) for i in seq_items]
    return out


def _work(chunk):
    ie = iteration.Engine(name="it")
    se = sql.Engine(name="s")
    d = db()
    table = d.table_for(
        ("c12dom",), "c12dom", ("rid", "a", "b"), [{"rid": i, **r} for i, r in enumerate(ROWS)]
    )
    cols = {A.tag("a"): table.columns["a"], A.tag("b"): table.columns["b"]}
    lib_rows = [{A.tag("a"): r["a"], A.tag("b"): r["b"]} for r in ROWS]
    viols = []
    n_eval = 0
    for i in range(0, len(chunk), BATCH):
        batch = chunk[i : i + BATCH]
        ref_vals, it_vals, sql_cols = [], [], []
        for fam, e in batch:
            pred = A.is_predicate(e)
            ref_vals.append([A.ref_eval(e, r) for r in ROWS])
            try:
                # fresh library objects that die after use, converted by one long-lived engine per worker:
                # an engine-side cache keyed on object identity would hand back a stale conversion
                lib = A._to_lib(e)
                fn = ie.convert_predicate(lib) if pred else ie.convert_column_expression(lib)
                it_vals.append([fn(r) for r in lib_rows])
                del lib, fn
            except Exception as ex:  # noqa: BLE001
                it_vals.append(ex)
            try:
                lib = A._to_lib(e)
                sql_cols.append(se.convert_predicate(lib, cols) if pred else se.convert_column_expression(lib, cols))
            except Exception as ex:  # noqa: BLE001
                sql_cols.append(ex)
        good = [j for j, c in enumerate(sql_cols) if not isinstance(c, Exception)]
        sql_vals = {}
        if good:
            q = (
                sqlalchemy.select(*[sql_cols[j].label(f"c{j}") for j in good])
                .select_from(table)
                .order_by(table.columns["rid"])
            )
            comp = q.compile(dialect=d.dialect, compile_kwargs={"render_postcompile": True})
            params = [comp.params[k] for k in (comp.positiontup or ())]
            try:
                res = d.raw.execute(str(comp), params).fetchall()
                for pos, j in enumerate(good):
                    sql_vals[j] = [row[pos] for row in res]
            except Exception as ex:  # noqa: BLE001
                for j in good:
                    sql_vals[j] = ex
        for j, (fam, e) in enumerate(batch):
            pred = A.is_predicate(e)
            norm = (lambda v: bool(v)) if pred else (lambda v: v)
            rv = [norm(v) for v in ref_vals[j]]
            for engine_name, vals in (("iteration", it_vals[j]), ("sql", sql_vals.get(j, sql_cols[j]))):
                n_eval += len(ROWS)
                if isinstance(vals, Exception):
                    viols.append(_v(fam, e, f"{engine_name}-raised", f"{type(vals).__name__}: {str(vals)[:150]}"))
                    continue
                got = [norm(v) for v in vals]
                if got != rv:
                    k = next(idx for idx in range(len(ROWS)) if got[idx] != rv[idx])
                    viols.append(
                        _v(
                            fam,
                            e,
                            f"{engine_name}-disagrees",
                            f"row {ROWS[k]}: {engine_name}={got[k]} reference={rv[k]} "
                            f"({sum(1 for x, y in zip(got, rv) if x != y)} of {len(ROWS)} rows differ)",
                        )
                    )
    return {"n": len(chunk), "evals": n_eval, "violations": viols}


def _v(fam, e, kind, detail):
    v = {"kind": kind, "detail": detail, "case": {"family": fam, "expr": A.to_jsonable(e)}, "program_str": A.fmt(e)}
    v["finding"] = findings.attribute("C12", v, {"expr": e})
    return v


def run(tier, seed):
    exprs = expressions(tier)
    fams = {}
    for fam, _ in exprs:
        fams[fam] = fams.get(fam, 0) + 1
    results = par.pmap(_work, par.chunks(exprs, 64))
    viols = [v for r in results for v in r["violations"]]
    evals = sum(r["evals"] for r in results)
    nontrivial = sum(1 for _, e in exprs if e[0] not in ("ref", "lit", "plit"))
    cov = {
        "states": len(exprs) * len(ROWS),
        "transitions": evals,
        "traces_validated_against_impl": evals,
        "evaluations": evals,
        "distinct_nontrivial": nontrivial,
        "expressions": len(exprs),
        "families": fams,
        "rows": len(ROWS),
        "rule": RULE,
        "exhaustive": True,
        "samples": [{"family": f, "expr": A.fmt(e)} for f, e in exprs[:: max(1, len(exprs) // 10)]][:12],
    }
    return {
        "coverage": cov,
        "violations": viols,
        "assumptions": [
            "SQLite 3.40 integer arithmetic stands in for 'a database'; NULL-free integers in [-3,3]",
            "booleans compared by truthiness",
        ],
    }


def replay(doc):
    e = A.from_jsonable(doc["case"]["expr"])
    return _work([(doc["case"]["family"], e)])["violations"]
