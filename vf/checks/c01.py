"""C01 - iteration engine executes the applied operation sequence exactly."""

from __future__ import annotations

from lsst.daf.relation import Materialization, UnaryOperationRelation

from .. import spaces, walk
from ..explore import Check, SubSpace, coverage_from, explore, replay_case
from ..realize import Ctx
from ..refmodel import compare

RULE = (
    "every program (sequence of public factory calls, operands of chain drawn from a fixed pool) over the listed "
    "alphabet up to the depth bound, from every root leaf configuration, plus every program of depth <= 2 over a "
    "19-operation alphabet from EVERY leaf row list of length <= 2 (thorough 3) over a 2x2x2 value cube; one evaluation = one real factory call "
    "followed by iteration.Engine.execute and list comparison with the reference evaluator; non-trivial = the call "
    "did not simply append one operation node to its parent tree (a merge, elision, no-op shortcut or operand "
    "rewrite fired); distinct = distinct (tree, rows) digests"
)


class C01(Check):
    pid = "C01"

    def subspaces(self, tier):
        w = spaces.it_world()
        if tier == "quick":
            dw, droots = spaces.it_data_world(2)
            subs = [SubSpace("it/full/d3", w, spaces.IT_ROOTS_ALL, spaces.IT_FULL, 3)]
            subs.append(SubSpace("it/reduced/L/d4", w, ("L",), spaces.IT_REDUCED, 4))
            subs.append(SubSpace("itdata/all-lists<=2/d2", dw, droots, spaces.IT_DATA_OPS, 2))
            subs.append(SubSpace("it/expr/L/d2", w, ("L", "L1"), spaces.EXPR_OPS, 2))
            subs.append(SubSpace("it/chained-payload/d2", w, ("LC",), spaces.IT_FULL + (("chain", ("LC",)), ("chain", ("LC",), True)), 2))
        else:
            dw, droots = spaces.it_data_world(3)
            subs = [SubSpace("it/full/d3", w, spaces.IT_ROOTS_ALL[1:], spaces.IT_FULL, 3)]
            subs.append(SubSpace("it/full/L/d4", w, ("L",), spaces.IT_FULL, 4))
            subs.append(SubSpace("it/reduced/L/d5", w, ("L",), spaces.IT_REDUCED, 5))
            subs.append(SubSpace("itdata/all-lists<=3/d2", dw, droots, spaces.IT_DATA_OPS, 2))
            subs.append(SubSpace("it/expr/L/d3", w, ("L", "L1"), spaces.EXPR_OPS, 3))
            subs.append(SubSpace("it/chained-payload/d3", w, ("LC",), spaces.IT_FULL + (("chain", ("LC",)), ("chain", ("LC",), True)), 3))
        return subs

    def judge(self, tr):
        if tr.ooc:
            tr.count("out_of_contract")
            return False
        if tr.rel is None or tr.val is None:
            if tr.rel is None and tr.val is None:
                tr.count("rejected_by_both")
            elif tr.rel is None:
                tr.count("rejected_by_library_only:" + type(tr.exc).__name__)
            else:
                tr.count("accepted_though_reference_rejects")
            return False
        rel, val = tr.rel, tr.val
        plain = isinstance(rel, UnaryOperationRelation) and rel.target is tr.parent_rel
        tr.nontrivial = not plain
        if rel is tr.parent_rel:
            tr.count("rewrite:returned_same_object")
        elif not plain:
            tr.count("rewrite:merged_elided_or_rebuilt")
        try:
            got = tr.ctx.rows_of(rel)
            got2 = tr.ctx.rows_of(rel)
        except Exception as e:  # noqa: BLE001
            tr.violation("execute-raised", f"{type(e).__name__}: {e}")
            return True
        tr.outcome = (walk.key(rel), tuple(tuple(sorted(r.items())) for r in got))
        strength, ok, detail = compare(val, got)
        tr.count("compared:" + strength)
        if not ok:
            tr.violation("rows", f"{detail}: expected {list(val.rows)[:8]} got {got[:8]}")
        elif got2 != got:
            tr.violation("rows-second-execution", f"second execute differs: {got[:8]} vs {got2[:8]}")
        if walk.count_nodes(rel, Materialization):
            tr.count("materialization_fresh_rebuild")
            try:
                fresh = Ctx(tr.sub.world)
                got3 = fresh.rows_of(fresh.build(tr.program()))
            except Exception as e:  # noqa: BLE001
                tr.violation("execute-raised-fresh", f"{type(e).__name__}: {e}")
                return True
            if got3 != list(val.rows):
                tr.violation("rows-fresh-build", f"fresh build differs: expected {list(val.rows)[:8]} got {got3[:8]}")
        return True

    def sample(self, tr):
        if tr.rel is not None and tr.val is not None:
            super().sample(tr)


def run(tier, seed):
    res = explore(C01(), tier, seed)
    return {
        "coverage": coverage_from(res, RULE),
        "violations": res["violations"],
        "assumptions": [
            "reference evaluator (vf/refmodel.py) is the trusted oracle",
            "values are small NULL-free integers; leaf contents fixed (hand-designed adversarial lists)",
            "deduplication inputs violating the documented is_key functional dependency are out of contract (counted)",
        ],
    }


def replay(doc):
    return replay_case(C01(), doc["case"])
