"""C20 - ill-formed requests are rejected at the factory call with the documented error."""

from __future__ import annotations

from lsst.daf.relation import MarkerRelation, Transfer

from .. import alphabet as A
from .. import spaces, walk
from ..alphabet import L, R
from ..explore import Check, SubSpace, coverage_from, explore, replay_case
from ..realize import classify_exc
from ..spaces import S, pe

RULE = (
    "every well-typed program state (iteration, SQL and three-engine worlds) up to the depth bound x every single "
    "ill-typing edit of a menu derived from the statement (expression / predicate / sort term / join predicate / "
    "projection naming a missing column; calculated tag already present; chain operand with different columns; operands "
    "in different engines with backtrack=False, transfer=False; engine-restricted function in the wrong engine; slices "
    "negative, reversed, stepped, non-slice key), each issued plain and through every preferred_engine x backtrack x "
    "transfer x require_preferred_engine combination; whether an edit is ill-formed for its target is decided by the "
    "reference typing; the call must raise the documented class, return nothing, and leave the fingerprints of all "
    "pre-existing relations unchanged; non-trivial = edit issued on a state of depth >= 1; distinct = distinct "
    "(state, edit) digests"
)

Q_GT_0 = ("gt", R("q"), L(0))
UNARY_EDITS = (
    ("calc", "z", ("neg", R("q"))),
    ("calc", "z", ("add", R("a"), R("q"))),
    ("calc", "a", ("neg", R("b"))),
    ("calc", "x", ("neg", R("b"))),
    ("calc", "c", ("add", R("a"), R("b"))),
    ("sel", Q_GT_0),
    ("sel", ("and", ("gt", R("a"), L(0)), Q_GT_0)),
    ("sel", ("in_seq", R("a"), (R("q"), L(1)))),
    ("sel", ("and", Q_GT_0, ("plit", False))),
    ("sel", ("and", ("plit", False), Q_GT_0)),
    ("sel", ("or", ("gt", R("b"), L(0)), ("and", Q_GT_0, ("plit", False)))),
    ("sel", ("gt", R("c"), L(0))),
    ("sel", ("lt", R("x"), L(0))),
    S((R("q"), True)),
    S((R("a"), True), (("add", R("a"), R("q")), False)),
    S((R("c"), True)),
    S((R("x"), False)),
    ("proj", ("a", "q")),
    ("proj", ("q",)),
    ("proj", ("a", "b", "c")),
    ("proj", ("a", "x")),
)
SLICE_EDITS = (
    ("rawslice", -1, 2, None),
    ("rawslice", 3, 1, None),
    ("rawslice", None, -1, None),
    ("rawslice", 0, 4, 2),
    ("rawslice", None, None, -1),
    ("rawslice", None, None, 0),
    ("rawslice", 1, 3, 0),
    ("index", 2),
)
IT_EDITS = (
    ("chain", ("E0",)),
    ("chain", ("E0",), True),
    ("calc", "w", ("add", spaces.C_ONLY_SQL, L(1))),
    ("sel", ("gt", ("add", spaces.C_ONLY_SQL, L(1)), L(0))),
    ("chain", ("L2", ("proj", ("a",)))),
    ("chain", ("L2", ("calc", "w", ("neg", R("a"))))),
    ("sel", spaces.P_ONLY_SQL),
    ("calc", "w", spaces.C_ONLY_SQL),
    S((spaces.C_ONLY_SQL, True)),
    ("sel", ("in_seq", R("a"), (spaces.C_ONLY_SQL, L(1)))),
    ("sel", ("in_seq", R("b"), (L(1), ("add", spaces.C_ONLY_SQL, L(1))))),
)
SQL_EDITS = (
    ("chain", ("E",)),
    ("chain", ("E",), True),
    ("join", ("K",), None, False, ("a",)),
    ("join", ("K",), None, True, ("a",)),
    ("calc", "w", ("add", spaces.C_ONLY_IT, L(1))),
    ("chain", ("K",)),
    ("chain", ("Y", ("proj", ("a",)))),
    ("join", ("K",), Q_GT_0, False),
    ("join", ("K",), ("gt", R("d"), R("q")), True),
    ("sel", spaces.P_ONLY_IT),
    ("calc", "w", spaces.C_ONLY_IT),
    S((spaces.C_ONLY_IT, True)),
    ("join", ("K",), ("only", "iteration", ("gt", R("d"), R("a"))), False),
    # ill-formed joins issued through Join(...).apply(lhs, rhs) directly, common columns resolved or not
    ("join", ("K",), Q_GT_0, False, ("a",), "direct"),
    ("join", ("K",), Q_GT_0, True, None, "direct"),
    ("join", ("K",), ("gt", R("d"), R("q")), False, (), "direct"),
    ("join", ("K",), None, False, ("b",), "direct"),
    ("join", ("K",), ("only", "iteration", ("gt", R("d"), R("a"))), False, ("a",), "direct"),
    ("join", ("K",), ("only", "iteration", ("gt", R("d"), R("a"))), True, None, "direct"),
    # explicit common columns the join-identity operand cannot have (the identity short-cut must not skip the check)
    ("join", ("I0",), None, False, ("a",), "direct"),
    ("join", ("I0",), None, True, ("mm", ("a",), None), "direct"),
    ("join", ("I0",), None, False, ("a",)),
    # an engine-restricted function hidden among the items of a membership test
    ("sel", ("in_seq", R("a"), (spaces.C_ONLY_IT, L(1)))),
    ("join", ("K",), ("in_seq", R("d"), (L(7), spaces.C_ONLY_IT)), False),
    # unresolved explicit common-column requests that cannot be met
    ("join", ("K",), None, False, ("mm", ("b",), None)),
    ("join", ("K",), None, True, ("mm", ("a",), ("b",))),
    ("join", ("K",), None, False, ("mm", ("d",), None), "direct"),
    ("join", ("K",), None, False, ("mm", ("a", "b"), ("a", "b", "c")), "direct"),
)
MULTI_EDITS = (
    ("join", ("I1",), None, False),
    ("join", ("IS",), None, False),
    ("chain", ("E1",)),
    ("join", ("K",), None, False, ("a",)),
    pe(("join", ("K",), None, False, ("a",)), "s", True, True, False),
    ("chain", ("L2",)),
    ("chain", ("E",)),
    ("chain", ("K",)),
    pe(("join", ("K",), None, False), "s", False, False, False),
    pe(("join", ("K1",), None, False), "e1", False, False, False),
    ("join", ("K",), Q_GT_0, False),
    ("join", ("K1",), Q_GT_0, False),
    ("sel", spaces.P_ONLY_SQL),
    ("sel", spaces.P_ONLY_IT),
    # cross-engine operands that are themselves sorted / chained trees of the other engine
    ("join", ("K1", S((R("d"), True))), None, False),
    ("join", ("K1", S((R("d"), True))), None, True),
    pe(("join", ("K1", S((R("d"), True))), None, False), "e1", False, False, False),
    ("chain", ("L2", S((R("c"), True)))),
    ("chain", ("L2", S((R("c"), True)), ("chain", ("L2",))), True),
    ("join", ("K", S((R("d"), True))), None, False),
)


def with_flags(edits, engines):
    out = []
    for e in edits:
        out.append(e)
        if e[0] == "index" or (e[0] == "rawslice" and e[3] is not None):
            continue  # a step / non-slice key can only be expressed through relation[...] itself
        for eng in engines:
            for f in spaces.FLAGSETS:
                out.append(pe(e, eng, *f))
    return tuple(out)


IT_BASE = (
    ("calc", "x", spaces.NEG_A),
    ("proj", ("a", "b")),
    ("proj", ("b", "c")),
    ("sel", spaces.P_A_GT_1),
    ("dedup",),
    S((R("b"), True), (R("a"), False)),
    ("slice", 1, 3),
    ("chain", ("L2",)),
    ("mat", "m1"),
    ("xfer", "e2"),
)
SQL_BASE = (
    ("calc", "x", spaces.NEG_A),
    ("proj", ("a", "b")),
    ("proj", ("b", "c")),
    ("sel", spaces.P_A_GT_1),
    ("dedup",),
    S((R("c"), False)),
    ("slice", 1, 3),
    ("chain", ("Y",)),
    ("join", ("K",), None, False),
)
MULTI_BASE = (
    ("xfer", "s"),
    ("xfer", "e1"),
    ("xfer", "e2"),
    ("mat", "m1"),
    ("calc", "x", spaces.NEG_A),
    ("proj", ("a", "b")),
    ("sel", spaces.P_A_GT_1),
    ("dedup",),
    ("slice", 1, 3),
    pe(("proj", ("a", "c")), "s", True, False, False),
    pe(("sel", spaces.P_B_EQ_1), "s", True, True, False),
)


def fingerprint(ctx, rel):
    nodes = []
    for n in walk.walk(rel):
        nodes.append((type(n).__name__, id(n), id(n.payload) if isinstance(n, MarkerRelation) else None))
    leaves = tuple((name, walk.key(leaf), str(leaf)) for name, leaf in ctx.leaves.items())
    return (walk.key(rel), str(rel), tuple(nodes), leaves, rel.min_rows, rel.max_rows, frozenset(rel.columns))


class C20(Check):
    pid = "C20"

    def __init__(self):
        self.edit_sets = {}

    def subspaces(self, tier):
        iw, sw, mw = spaces.it_world(), spaces.sql_world(), spaces.multi_world()
        it_edits = with_flags(UNARY_EDITS + SLICE_EDITS, ("e2",)) + IT_EDITS
        sql_edits = with_flags(UNARY_EDITS + SLICE_EDITS, ()) + SQL_EDITS
        multi_edits = with_flags(UNARY_EDITS + SLICE_EDITS, ("s", "e1")) + MULTI_EDITS
        self.edit_sets = {"it": set(it_edits), "sql": set(sql_edits), "multi": set(multi_edits)}
        for base, edits in ((IT_BASE, it_edits), (SQL_BASE, sql_edits), (MULTI_BASE, multi_edits)):
            assert not set(base) & set(edits), "an operation cannot be both a state-building step and an edit"
        d = 4 if tier == "quick" else 5
        return [
            SubSpace(f"it/base+edits/d{d}", iw, ("L", "E0"), IT_BASE + it_edits, d),
            SubSpace(f"sql/base+edits/d{d}", sw, ("X", "E"), SQL_BASE + sql_edits, d),
            SubSpace(f"multi/base+edits/d{d}", mw, ("X", "L"), MULTI_BASE + multi_edits, d),
        ]

    def enter_state(self, ctx, sub, prog, rel, val):
        self._fp = fingerprint(ctx, rel)

    def judge(self, tr):
        world = tr.sub.label.split("/")[0]
        if tr.op not in self.edit_sets[world]:
            # base operation: only used to reach states
            if tr.ooc or tr.rel is None or tr.val is None:
                return False
            return True
        if tr.ooc:
            return False
        if tr.rej is None:
            tr.count("edit_well_formed_here_skipped")
            return False
        inner = tr.op[1] if tr.op[0] == "pe" else tr.op
        backtracking = tr.op[0] != "pe" or tr.op[3]
        partner_engine = None
        if inner[0] == "join":
            partner_engine = str(tr.ctx.operand(tr.parent_rel, inner[1]).engine)
        can_backtrack = partner_engine is not None and any(
            isinstance(n, Transfer) and str(n.target.engine) == partner_engine for n in walk.walk(tr.parent_rel)
        )
        if (
            inner[0] == "join"
            and tr.rej.classes == {"EngineError"}
            and backtracking
            and can_backtrack
            and A.engine_restriction(inner[2] or ("plit", True)) is None
        ):
            # operands in different engines, but backtracking is allowed and may legitimately place the join upstream
            tr.count("cross_engine_join_with_backtracking_skipped")
            return False
        tr.count("ill_formed_requests")
        tr.nontrivial = tr.depth >= 2
        tr.outcome = (walk.key(tr.parent_rel), tr.op)
        allowed = set(tr.rej.classes)
        if tr.op[0] == "pe" and tr.op[5] and not tr.op[4] and tr.op[2] != str(tr.parent_rel.engine):
            allowed.add("EngineError")
        if tr.rel is not None:
            tr.violation(
                "ill-formed-accepted",
                f"request ill-formed for its target ({sorted(tr.rej.classes)}: {tr.rej.reason}) returned a relation: {tr.rel}",
            )
        else:
            got = classify_exc(tr.exc)
            tr.count("raised:" + got)
            if got not in allowed:
                tr.violation(
                    "wrong-exception-class",
                    f"expected one of {sorted(allowed)} ({tr.rej.reason}) but the call raised {type(tr.exc).__name__}: {str(tr.exc)[:150]}",
                )
        after = fingerprint(tr.ctx, tr.parent_rel)
        if after != self._fp:
            tr.violation("rejected-call-changed-state", "fingerprint of pre-existing relations changed across a rejected call")
            self._fp = after
        return False


def run(tier, seed):
    res = explore(C20(), tier, seed)
    return {
        "coverage": coverage_from(res, RULE),
        "violations": res["violations"],
        "assumptions": [
            "whether an edit is ill-formed for its target, and which exception classes the documentation allows, is decided "
            "by the reference typing (vf/refmodel.py); a request that is ill-formed in two ways may raise either class",
            "requests the statement exempts (trivially no-op operations) are not ill-formed for the reference either",
        ],
    }


def replay(doc):
    c = C20()
    c.subspaces("quick")
    return replay_case(c, doc["case"])
