"""C10 - payloads are write-once and materializations are computed at most once."""

from __future__ import annotations

import itertools

from lsst.daf.relation import EngineError, MarkerRelation, Materialization, Transfer, iteration, sql

from .. import alphabet as A
from .. import findings, par, spaces, walk
from ..alphabet import L, R
from ..realize import Ctx, LeafSpec, RealProcessor, World, db
from .c18 import CountingSequence

RULE = (
    "all histories of the bound length (invariants after every step) over the actions {attach_payload(node, P1|P2) for every node kind (leaf, "
    "unary operation relation, chain relation, materialization, transfer, the SQL engine's Select wrapper), iteration execute(T_i), "
    "Processor.process(T_i)} on four trees T_1..T_4 (the materialization, a projection, a self-chain and a sort of it) that share one materialization node, in several scenarios "
    "(iteration-only; SQL source transferred into the iteration engine below the materialization; materialization "
    "inside the SQL engine below a transfer; SQL materialization directly above a transfer from the iteration engine; "
    "a materialization added on top of an ALREADY PROCESSED tree whose transfer holds a payload, in the iteration and in the SQL engine); "
    "the Processor's transfer hook returns a cacheable payload only when asked to (materialize_as), otherwise one that "
    "re-evaluates its source on every read; leaf payloads are instrumented; state invariants after every action: a "
    "payload slot that has been non-None keeps the identical object, attaching to a filled marker or to any non-marker "
    "raises TypeError and changes nothing, the shared materialization's upstream is evaluated at most once over the "
    "whole history (leaf iteration starts / hook calls), and every evaluation returns the reference rows; non-trivial = "
    "history evaluates after an attach or evaluates twice; distinct = distinct slot/counter states"
)

ROWS = ((2, 1, 4), (1, 2, 3), (2, 1, 4), (3, 2, 0))
ABC = ("a", "b", "c")
SEL = ("sel", ("gt", R("a"), L(1)))
EXPECT_M = [dict(zip(ABC, r)) for r in ROWS if r[0] > 1]


def payload_factory(spec, rows):
    return CountingSequence(rows)


SEL_NONE = ("sel", ("gt", R("a"), L(99)))
VARIANTS = {
    # name -> (program under the shared materialization, expected rows of the materialization)
    "iteration": (("L", SEL), None),
    "iteration-dedup": (("L", SEL, ("dedup",)), "dedup"),
    "iteration-sort": (("L", SEL, ("sort", ((R("b"), True),))), "sort"),
    "iteration-empty": (("L", SEL_NONE), "empty"),
    "iteration-doomed-left-chain": (("L", SEL, ("chain", ("D",), True)), None),
}


def _expected(kind):
    rows = [dict(zip(ABC, r)) for r in ROWS if r[0] > 1]
    if kind == "dedup":
        out = []
        for r in rows:
            if r not in out:
                out.append(r)
        return out
    if kind == "sort":
        return sorted(rows, key=lambda r: r["b"])
    if kind == "empty":
        return []
    return rows


class Scenario:
    """Builds the trees of one scenario on fresh objects."""

    def __init__(self, name):
        self.name = name
        self.expect_m = EXPECT_M
        if name in VARIANTS:
            prog, kind = VARIANTS[name]
            w = World(
                engines=(("e1", "it"), ("e2", "it")),
                leaves=(LeafSpec("L", "e1", ABC, ROWS), LeafSpec("D", "e1", ABC, (), special="doomed")),
            )
            self.ctx = Ctx(w, payload_factory)
            base = self.ctx.build(prog)
            self.expect_m = _expected(kind)
            self.transfer = None
        elif name == "sql-source":
            w = World(engines=(("s", "sql"), ("e1", "it")), leaves=(LeafSpec("X", "s", ABC, ROWS),))
            self.ctx = Ctx(w)
            base = self.ctx.build(("X", SEL, ("xfer", "e1")))
            self.transfer = base
        elif name == "iteration-over-processed-transfer":
            # history prefix: the tree below the materialization was processed EARLIER and the caller keeps
            # building on the returned tree, whose transfer holds a (lazy, non-cacheable) payload
            w = World(engines=(("e1", "it"), ("e2", "it")), leaves=(LeafSpec("L", "e1", ABC, ROWS),))
            self.ctx = Ctx(w, payload_factory)
            base = RealProcessor(self.ctx, lazy_transfers=True).process(self.ctx.build(("L", SEL, ("xfer", "e2"))))
            self.transfer = base
        elif name == "sql-materialization-over-processed-transfer":
            w = World(engines=(("s", "sql"), ("e1", "it")), leaves=(LeafSpec("L", "e1", ABC, ROWS),))
            self.ctx = Ctx(w, payload_factory)
            base = RealProcessor(self.ctx, lazy_transfers=True).process(self.ctx.build(("L", SEL, ("xfer", "s"))))
            self.transfer = None
        elif name == "sql-materialization-over-transfer":
            w = World(engines=(("s", "sql"), ("e1", "it")), leaves=(LeafSpec("L", "e1", ABC, ROWS),))
            self.ctx = Ctx(w, payload_factory)
            base = self.ctx.build(("L", SEL, ("xfer", "s")))
            self.transfer = None
        else:  # "sql-materialization"
            w = World(engines=(("s", "sql"), ("e1", "it")), leaves=(LeafSpec("X", "s", ABC, ROWS),))
            self.ctx = Ctx(w)
            base = self.ctx.build(("X", SEL))
            self.transfer = None
        self.m = self.ctx.apply(base, ("mat", "shared"))
        ctx = self.ctx
        if name in ("sql-materialization", "sql-materialization-over-transfer", "sql-materialization-over-processed-transfer"):
            top = ctx.apply(self.m, ("xfer", "e1"))
            self.transfer = top
            self.mat_node = next(n for n in walk.walk(self.m) if isinstance(n, Materialization))
        else:
            top = self.m
            self.mat_node = self.m
        self.trees = [
            top,
            ctx.apply(top, ("proj", ("a", "b"))),
            ctx.apply(top, ("chain", ("self",))),
            ctx.apply(top, ("sort", ((R("c"), True), (R("b"), False)))),
        ]
        em = self.expect_m
        self.expect = [
            em,
            [{k: r[k] for k in ("a", "b")} for r in em],
            em + em,
            sorted(sorted(em, key=lambda r: -r["b"]), key=lambda r: r["c"]),
        ]
        # iteration-engine trees have a determined row order: compare as lists there
        self.ordered = name in VARIANTS or name == "iteration-over-processed-transfer"
        leaf = ctx.leaves["L" if "L" in ctx.leaves else "X"]
        self.nodes = {
            "leaf": leaf,
            "unary": next(n for n in walk.walk(self.trees[1]) if type(n).__name__ == "UnaryOperationRelation"),
            "chain": next(n for n in walk.walk(self.trees[2]) if type(n).__name__ == "BinaryOperationRelation"),
            "materialization": self.mat_node,
        }
        if self.transfer is not None:
            self.nodes["transfer"] = next(n for n in walk.walk(self.transfer) if isinstance(n, Transfer))
        # the SQL engine wraps what its factories return in a Select marker, documented never to hold a payload
        # ("TypeError ... if this marker subclass can never have a payload"): the relation a caller actually
        # holds after .materialized() / .transferred_to(sql) is that wrapper
        wrapper = next((n for n in walk.walk(self.m) if isinstance(n, sql.Select)), None)
        if wrapper is not None:
            self.nodes["select"] = wrapper
        self.hook_log = []
        self.p = {}

    def payload(self, which, node):
        """A correct payload object for the node's engine (P1 and P2 are distinct objects, same rows)."""
        key = (which, id(node))
        if key not in self.p:
            rows = self.expect_m
            eng = node.engine
            if isinstance(eng, iteration.Engine):
                self.p[key] = iteration.RowSequence([{A.tag(k): v for k, v in r.items()} for r in rows])
            else:
                table = db().temp_table("c10", ABC, rows)
                self.p[key] = sql.Payload(from_clause=table, columns_available={A.tag(c): table.columns[c] for c in ABC})
        return self.p[key]

    def marker_slots(self):
        slots = {}
        for t in self.trees:
            for n in walk.walk(t):
                if isinstance(n, (Materialization, Transfer)):
                    slots[id(n)] = n
        return slots


def actions(scn):
    out = []
    for kind in scn.nodes:
        for which in ("P1", "P2"):
            out.append(("attach", kind, which))
    for i in range(4):
        out.append(("execute", i, None))
        out.append(("process", i, None))
    return out


def run_history(scn_name, hist):
    scn = Scenario(scn_name)
    ctx = scn.ctx
    problems = []
    seen_payload = {}  # id(node) -> payload object once non-None
    leaf_stats = ctx.leaf_payloads["L"].stats if "L" in ctx.leaf_payloads else None
    mat_hooks = 0
    states = []
    for step, (kind, x, y) in enumerate(hist):
        slots_before = {k: n.payload for k, n in scn.marker_slots().items()}
        if kind == "attach":
            node = scn.nodes[x]
            pl = scn.payload(y, node)
            before = node.payload
            try:
                node.attach_payload(pl)
                ok = True
            except TypeError:
                ok = False
            except Exception as e:  # noqa: BLE001
                problems.append(("attach-wrong-exception", f"step {step}: attach to {x} raised {type(e).__name__}"))
                ok = False
            is_marker = isinstance(node, MarkerRelation) and not isinstance(node, sql.Select)
            if ok and not (is_marker and before is None):
                problems.append(("attach-accepted", f"step {step}: attach_payload succeeded on {x} (marker={is_marker}, had payload={before is not None})"))
            if not ok and is_marker and before is None:
                problems.append(("attach-refused", f"step {step}: attach_payload to an empty {x} marker raised TypeError"))
            if not ok and node.payload is not before:
                problems.append(("rejected-attach-changed-payload", f"step {step}: payload of {x} changed by a rejected attach"))
        else:
            tree = scn.trees[x]
            try:
                if kind == "execute":
                    got = [{t.qualified_name: v for t, v in row.items()} for row in tree.engine.execute(tree)]
                else:
                    proc = RealProcessor(ctx, lazy_transfers=True)
                    out = proc.process(tree)
                    for hk, src, trivial, name in proc.log:
                        if name == "shared" or (hk == "materialize"):
                            mat_hooks += 1
                    got = ctx.rows_of(out)
                if scn.ordered and got != scn.expect[x]:
                    problems.append(("rows", f"step {step}: {kind}(T{x + 1}) returned {got[:6]} expected (in this order) {scn.expect[x][:6]}"))
                elif sorted(map(lambda r: sorted(r.items()), got)) != sorted(map(lambda r: sorted(r.items()), scn.expect[x])):
                    problems.append(("rows", f"step {step}: {kind}(T{x + 1}) returned {got[:6]} expected {scn.expect[x][:6]}"))
            except EngineError as e:
                if kind == "execute":
                    pass  # execute() of a tree with an unprocessed transfer is documented to raise
                else:
                    problems.append(("process-raised", f"step {step}: {type(e).__name__}: {str(e)[:160]}"))
            except Exception as e:  # noqa: BLE001
                problems.append((f"{kind}-raised", f"step {step}: {type(e).__name__}: {str(e)[:160]}"))
        # state invariants
        for k, n in scn.marker_slots().items():
            p = n.payload
            if k in seen_payload and p is not seen_payload[k]:
                problems.append(("payload-replaced", f"step {step}: payload of {type(n).__name__} changed after it had been set"))
            if p is not None:
                seen_payload.setdefault(k, p)
        if leaf_stats is not None and leaf_stats.starts > 1:
            problems.append(("upstream-evaluated-twice", f"step {step}: leaf under the shared materialization iterated {leaf_stats.starts} times"))
        if mat_hooks > 1:
            problems.append(("materialization-hook-twice", f"step {step}: {mat_hooks} hook calls for the shared materialization"))
        states.append(
            (
                tuple(sorted((type(n).__name__, str(n)[:40], n.payload is not None) for n in scn.marker_slots().values())),
                None if leaf_stats is None else leaf_stats.starts,
                mat_hooks,
            )
        )
        if problems:
            break
    return problems, states, scn


def _work(arg):
    scn_name, depth, prefixes = arg
    viols = []
    states = set()
    n = 0
    nontrivial = 0
    acts = actions(Scenario(scn_name))
    for prefix in prefixes:
        for ext in itertools.product(acts, repeat=depth - len(prefix)):
            hist = tuple(prefix) + ext
            problems, sts, scn = run_history(scn_name, hist)
            n += 1
            for s in sts:
                states.add(walk.digest((scn_name, s)))
            kinds = [h[0] for h in hist]
            evals = [k for k in kinds if k != "attach"]
            if len(evals) >= 2 or ("attach" in kinds and evals and kinds.index("attach") < len(kinds) - 1):
                nontrivial += 1
            for kind, detail in problems:
                v = {
                    "kind": kind,
                    "detail": detail,
                    "case": {"scenario": scn_name, "history": A.to_jsonable(hist)},
                    "program_str": f"[{scn_name}] " + " ; ".join(_fmt(h) for h in hist),
                }
                ctxd = {"rel": scn.trees[0], "scenario": scn_name}
                v["finding"] = findings.attribute("C10", v, ctxd)
                viols.append(v)
    return {"n": n, "states": states, "violations": viols, "nontrivial": nontrivial}


def _fmt(h):
    kind, x, y = h
    return f"attach({x},{y})" if kind == "attach" else f"{kind}(T{x + 1})"


SCENARIOS = tuple(VARIANTS) + (
    "sql-source",
    "sql-materialization",
    "sql-materialization-over-transfer",
    "iteration-over-processed-transfer",
    "sql-materialization-over-processed-transfer",
)


def run(tier, seed):
    depth = 4 if tier == "quick" else 5
    depths = {name: (depth if name == "iteration" else depth - 1) for name in SCENARIOS}
    if tier == "thorough":
        depths = {name: (depth if name.startswith("iteration") else depth - 1) for name in SCENARIOS}
    tasks = []
    for name in SCENARIOS:
        acts = actions(Scenario(name))
        prefixes = [(a, b) for a in acts for b in acts]
        for ch in par.chunks(prefixes, 24):
            tasks.append((name, depths[name], ch))
    results = par.pmap(_work, tasks)
    states = set()
    for r in results:
        states |= r["states"]
    n = sum(r["n"] for r in results)
    viols = [v for r in results for v in r["violations"]]
    cov = {
        "states": len(states),
        "transitions": sum(r["n"] for r in results) * (depth - 1),
        "traces_validated_against_impl": n,
        "evaluations": n,
        "distinct_nontrivial": sum(r["nontrivial"] for r in results),
        "history_length": depths,
        "scenarios": list(SCENARIOS),
        "actions_per_scenario": {s: len(actions(Scenario(s))) for s in SCENARIOS},
        "rule": RULE,
        "exhaustive": True,
        "samples": [" ; ".join(_fmt(h) for h in hist) for hist in [tuple(actions(Scenario("iteration"))[i::5][:4]) for i in range(3)]],
    }
    return {
        "coverage": cov,
        "violations": viols,
        "assumptions": [
            "attached payloads hold the correct rows (P1/P2 differ only in identity), so content stays comparable whichever is attached first",
            "histories of exactly the bound length are enumerated; invariants are evaluated after every step, so all shorter histories are covered as prefixes",
        ],
    }


def replay(doc):
    c = doc["case"]
    hist = tuple(tuple(h) for h in c["history"])
    problems, sts, scn = run_history(c["scenario"], hist)
    out = []
    for kind, detail in problems:
        v = {"kind": kind, "detail": detail, "case": c, "program_str": f"[{c['scenario']}] " + " ; ".join(_fmt(h) for h in hist)}
        v["finding"] = findings.attribute("C10", v, {"rel": scn.trees[0], "scenario": c["scenario"]})
        out.append(v)
    return out
