"""Judge helpers shared by the program-exploration checks."""

from __future__ import annotations

from lsst.daf.relation import iteration

from .. import walk
from ..realize import compile_sql, run_sql


def classify_basic(tr):
    """Handle out-of-contract / rejected transitions uniformly.  Returns True if both sides accepted."""
    if tr.ooc:
        tr.count("out_of_contract")
        return False
    if tr.rel is None or tr.val is None:
        if tr.rel is None and tr.val is None:
            tr.count("rejected_by_both")
        elif tr.rel is None:
            tr.count("rejected_by_library_only:" + type(tr.exc).__name__)
        else:
            tr.count("accepted_though_reference_rejects")
        return False
    return True


class SqlObs:
    """Compile + execute (both scan orders) observation of a SQL relation."""

    __slots__ = ("text", "params", "compile_exc", "db_exc", "rows")

    def __init__(self, rel):
        self.text = self.params = self.compile_exc = self.db_exc = None
        self.rows = []
        try:
            self.text, self.params = compile_sql(rel.engine, rel)
        except Exception as e:  # noqa: BLE001
            self.compile_exc = e
            return
        for rev in (False, True):
            try:
                self.rows.append(run_sql(self.text, self.params, rev))
            except Exception as e:  # noqa: BLE001
                self.db_exc = e
                return

    @property
    def failed(self):
        return self.compile_exc is not None or self.db_exc is not None

    def failure(self):
        if self.compile_exc is not None:
            return "compile", self.compile_exc
        return "database", self.db_exc


def is_sql(rel):
    return not isinstance(rel.engine, iteration.Engine)


def rows_digest(rows):
    return tuple(tuple(sorted(r.items())) for r in rows)


def select_count(rel):
    from lsst.daf.relation import sql

    return sum(1 for n in walk.walk(rel) if isinstance(n, sql.Select))
