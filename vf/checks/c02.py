"""C02 - SQL compilation preserves relational semantics."""

from __future__ import annotations

from .. import spaces, walk
from ..explore import Check, SubSpace, coverage_from, explore, replay_case
from ..refmodel import compare
from .common import SqlObs, classify_basic, rows_digest

RULE = (
    "every program of public factory calls in the SQL engine (six unary operations, join with/without predicate in "
    "both operand orders, chain; operands from a fixed pool incl. chains, projected siblings, sliced/deduplicated "
    "partners) up to the depth bound from every root leaf configuration, plus every program of depth <= 2 (thorough 3) over a "
    "17-operation alphabet from EVERY leaf table of <= 2 rows over a 2x2x2 value cube (73 tables), plus every program "
    "up to the depth bound over a world whose column tags collide in Python's set table, so that equal column sets reach "
    "chains/joins through every insertion history (set iteration order is the nondeterminism owned here); one evaluation = real factory call + "
    "to_executable + compile + run on SQLite in both physical scan orders, compared with the reference evaluator "
    "(list if the order is determined, multiset otherwise, weak if a slice consumed an unordered input); "
    "non-trivial = program depth >= 2; distinct = distinct (tree, rows) digests"
)


class C02(Check):
    pid = "C02"

    def subspaces(self, tier):
        w = spaces.sql_world()
        dw, droots = spaces.sql_data_world(2)
        data = SubSpace("sqldata/all-tables<=2/d2", dw, droots, spaces.SQL_DATA_OPS, 2)
        assert spaces.collide_orders_differ(), "collide world is vacuous: equal column sets iterate identically"
        cw = spaces.collide_world()
        if tier == "quick":
            return [
                SubSpace("sqlcollide/all/d3", cw, spaces.COLLIDE_ROOTS, spaces.COLLIDE_OPS, 3),
                SubSpace("sql/mini/X/d5", w, ("X",), spaces.SQL_MINI, 5),
                SubSpace("sql/expr/X/d2", w, ("X", "Y"), spaces.EXPR_OPS, 2),
                data,
                SubSpace("sql/full/d2", w, spaces.SQL_ROOTS_ALL[1:], spaces.SQL_FULL, 2),
                SubSpace("sql/full/X/d3", w, ("X",), spaces.SQL_FULL, 3),
                SubSpace("sql/reduced/X/d4", w, ("X",), spaces.SQL_REDUCED, 4),
            ]
        return [
            SubSpace("sqlcollide/all/d4", cw, spaces.COLLIDE_ROOTS, spaces.COLLIDE_OPS, 4),
            SubSpace("sql/mini/X/d6", w, ("X", "Y"), spaces.SQL_MINI, 6),
            SubSpace("sql/expr/X/d3", w, ("X", "Y"), spaces.EXPR_OPS, 3),
            SubSpace("sqldata/all-tables<=2/d3", dw, droots, spaces.SQL_DATA_OPS, 3),
            SubSpace("sql/full/d3", w, spaces.SQL_ROOTS_ALL[1:], spaces.SQL_FULL, 3),
            SubSpace("sql/full/X/d4", w, ("X",), spaces.SQL_FULL, 4),
            SubSpace("sql/reduced/X/d5", w, ("X",), spaces.SQL_REDUCED, 5),
        ]

    def judge(self, tr):
        if not classify_basic(tr):
            return False
        if tr.op[0] == "mat":
            tr.count("terminal_materialization_not_executed")
            return False
        obs = SqlObs(tr.rel)
        tr.nontrivial = tr.depth >= 2
        if obs.failed:
            phase, e = obs.failure()
            tr.violation(f"{phase}-raised", f"{type(e).__name__}: {str(e)[:200]}", phase=phase, exc=type(e).__name__)
            return True
        tr.outcome = (walk.key(tr.rel), rows_digest(obs.rows[0]))
        for i, got in enumerate(obs.rows):
            strength, ok, detail = compare(tr.val, got)
            tr.count("compared:" + strength)
            if not ok:
                tr.violation(
                    "rows",
                    f"scan order {'reversed' if i else 'default'}: {detail} ({strength}): expected "
                    f"{list(tr.val.rows)[:8]} got {got[:8]} sql={obs.text[:300]}",
                )
                break
        return True

    def sample(self, tr):
        if tr.rel is not None and tr.val is not None:
            super().sample(tr)


def run(tier, seed):
    res = explore(C02(), tier, seed)
    cov = coverage_from(res, RULE)
    cov["programs"] = res["counters"]["compared:list"] + res["counters"]["compared:bag"] + res["counters"]["compared:weak"]
    cov["disagreements_checked"] = len(res["violations"])
    return {
        "coverage": cov,
        "violations": res["violations"],
        "assumptions": [
            "SQLite 3.40 via SQLAlchemy stands in for 'a real database'; both reverse_unordered_selects settings enumerated",
            "SQLite adapter rewrites parenthesised compound operands as SELECT * FROM (...) (DESIGN 2.3)",
            "reference evaluator is the trusted oracle; NULL-free small integers; fixed adversarial leaf tables",
        ],
    }


def replay(doc):
    return replay_case(C02(), doc["case"])
