"""C19 - generated relation names are unique across all calls and threads."""

from __future__ import annotations

import itertools
import threading
import uuid

from lsst.daf.relation import LeafRelation, iteration, sql

from .. import alphabet as A
from .. import findings, par, sched

RULE = (
    "sequential: all histories up to the length bound over {direct get_relation_name(prefix) with three prefixes incl. "
    "a 70-character one, unnamed LeafRelation, make_leaf without a name, materialized() without a name (equal targets, "
    "kept alive), each with a short and a 70-character prefix} x engines {e1, e2 (iteration), s (SQL)}; "
    "concurrent: 2 threads x 2 requests and 3 threads x 1 request on one engine, leaf construction vs direct request, "
    "two engines, materialized() vs direct, and two harnesses started after 9998 sequential requests (the 4-digit "
    "counter of the name format at its boundary; <= 1 preemption) - every interleaving at CPython bytecode granularity inside the library with "
    "at most 2 preemptions (CHESS-style iterative bounding: 0, 1, 2), executions always run to completion; uuid.uuid4 "
    "is replaced by an injective fresh-value oracle; oracle: all names pairwise distinct, each starts with its "
    "requested prefix (whether each name embeds the fresh draw of its own request is recorded, not demanded); non-trivial = execution with >= 1 "
    "preemption, or a history with >= 2 requests; distinct = distinct schedules / histories"
)


class Fresh:
    """Deterministic injective stand-in for uuid.uuid4 (one atomic step); records which thread drew what."""

    def __init__(self):
        self.c = itertools.count(1)
        self.draws = {}

    def __call__(self):
        n = next(self.c)
        h = f"{n:032x}"
        self.draws.setdefault(threading.get_ident(), []).append(h)

        class U:
            hex = h

        return U()


def _request(kind, engine, prefix, out, fresh):
    """Issue one name request; record (prefix, name, draw)."""
    tid = threading.get_ident()
    n_before = len(fresh.draws.get(tid, []))
    if kind == "direct":
        name = engine.get_relation_name(prefix)
    elif kind == "leaf":
        name = LeafRelation(engine, frozenset(), _empty_payload(engine), name_prefix=prefix).name
    elif kind == "make_leaf":
        if isinstance(engine, iteration.Engine):
            name = engine.make_leaf(frozenset(), _empty_payload(engine), name_prefix=prefix).name
        else:
            name = engine.make_leaf(frozenset(), _empty_payload(engine), name_prefix=prefix).target.name
    elif kind == "materialized":
        base = LeafRelation(engine, frozenset(), _empty_payload(engine), name="base")
        rel = base.with_only_columns(frozenset()) if False else base
        from lsst.daf.relation import Deduplication

        rel = Deduplication().apply(base)
        m = rel.materialized(name_prefix=prefix)
        while not hasattr(m, "name"):
            m = m.target
        name = m.name
    else:
        raise AssertionError(kind)
    draws = fresh.draws.get(tid, [])[n_before:]
    out.append({"prefix": prefix, "name": name, "draws": list(draws), "kind": kind})
    _KEEP_ALIVE.append(locals().get("rel") or locals().get("m"))  # targets stay alive for the whole history


_KEEP_ALIVE: list = []
LONG = "p" * 70  # longer than common database identifier limits


def _empty_payload(engine):
    if isinstance(engine, iteration.Engine):
        return iteration.RowSequence([])
    return sql.Payload(from_clause=None)  # never compiled


def judge(requests):
    problems = []
    names = [r["name"] for r in requests]
    if len(set(names)) != len(names):
        dup = sorted(n for n in set(names) if names.count(n) > 1)
        problems.append(("duplicate-name", f"names not pairwise distinct: {dup}"))
    for r in requests:
        if not r["name"].startswith(r["prefix"]):
            problems.append(("prefix", f"name {r['name']!r} does not start with requested prefix {r['prefix']!r}"))
    return problems


def embeds_own_draw(requests):
    """How many names embed a fresh value drawn during their own request (informational: with the uuid4 seam
    this is what makes uniqueness hold beyond the explored bounds; it is not itself demanded by C19 - an
    implementation that is unique by other means must not be flagged)."""
    return sum(1 for r in requests if r["draws"] and any(d in r["name"] for d in r["draws"]))


# ----------------------------------------------------------------------------- sequential histories
KINDS = ("direct", "leaf", "make_leaf", "materialized")
ENGINES = ("e1", "e2", "s")
PREFIXES = ("p", "p_0000", LONG)


def seq_actions():
    acts = []
    for k in KINDS:
        for e in ENGINES:
            for p in PREFIXES if k == "direct" else ("p", LONG):
                acts.append((k, e, p))
    for e in ("e1", "s"):
        acts.append(("recreate", e, "p"))  # drop the engine (garbage) and continue with a fresh one of the same kind
    return acts


def _seq_work(prefixes):
    depth, items = prefixes
    viols = []
    n = 0
    acts = seq_actions()
    real = uuid.uuid4
    try:
        for pre in items:
            for ext in itertools.product(acts, repeat=depth - len(pre)):
                hist = tuple(pre) + ext
                fresh = Fresh()
                uuid.uuid4 = fresh
                engines = {"e1": iteration.Engine(name="e1"), "e2": iteration.Engine(name="e2"), "s": sql.Engine(name="s")}
                out = []
                _KEEP_ALIVE.clear()
                for k, e, p in hist:
                    if k == "recreate":
                        old = engines.pop(e)
                        _KEEP_ALIVE.clear()
                        del old
                        import gc

                        gc.collect()
                        engines[e] = iteration.Engine(name=e) if e != "s" else sql.Engine(name=e)
                        continue
                    _request(k, engines[e], p, out, fresh)
                n += 1
                for kind, detail in judge(out):
                    v = {"kind": kind, "detail": detail, "case": {"history": A.to_jsonable(hist)}, "program_str": "seq: " + " ; ".join(f"{k}({e},{p})" for k, e, p in hist)}
                    v["finding"] = findings.attribute("C19", v, {})
                    viols.append(v)
    finally:
        uuid.uuid4 = real
    return {"n": n, "violations": viols}


# ----------------------------------------------------------------------------- concurrent harnesses
def harness(spec, prior=0):
    """spec: list of per-thread request lists [(kind, engine_name, prefix), ...]; ``prior`` sequential
    requests on engine e1 are issued before the threads start."""

    def make():
        fresh = Fresh()
        uuid.uuid4 = fresh
        with sched.patched_locks():
            engines = {"e1": iteration.Engine(name="e1"), "e2": iteration.Engine(name="e2"), "s": sql.Engine(name="s")}
        sched.coopify(*engines.values())
        out = []
        if prior:
            # request history before the threads start (untraced): brings the 4-digit counter to its boundary
            e1 = engines["e1"]
            tid = threading.get_ident()
            for _ in range(prior):
                n0 = len(fresh.draws.get(tid, ()))
                name = e1.get_relation_name("p")
                out.append({"prefix": "p", "name": name, "draws": fresh.draws.get(tid, [])[n0:], "kind": "direct"})

        def body(reqs):
            def run():
                for k, e, p in reqs:
                    _request(k, engines[e], p, out, fresh)

            return run

        def collect():
            counters = tuple(sorted((n, e.relation_name_counter) for n, e in engines.items()))
            return {"requests": list(out), "outcome": (tuple(sorted(r["name"].rsplit("_", 1)[0] for r in out)), counters)}

        return [body(r) for r in spec], collect

    return make


HARNESSES = {
    "2x2 same engine": [[("direct", "e1", "p"), ("direct", "e1", "p")], [("direct", "e1", "p"), ("direct", "e1", "p")]],
    "3x1 same engine": [[("direct", "e1", "p")], [("direct", "e1", "p")], [("direct", "e1", "p")]],
    "leaf ctor vs direct": [[("leaf", "e1", "p")], [("direct", "e1", "p")]],
    "make_leaf vs leaf (sql)": [[("make_leaf", "s", "p")], [("leaf", "s", "p")]],
    "two engines + shared": [[("direct", "e1", "p"), ("direct", "e2", "p")], [("direct", "e2", "p"), ("direct", "e1", "p")]],
    "materialized vs direct": [[("materialized", "e1", "p")], [("direct", "e1", "p")]],
}
THOROUGH_EXTRA = {
    "2x1 bound 3": [[("direct", "e1", "p")], [("direct", "e1", "p")]],
    "3x1 mixed kinds": [[("leaf", "e1", "p")], [("direct", "e1", "p")], [("make_leaf", "e1", "p")]],
}


def _prior(label):
    if "counter boundary" not in label:
        return 0
    return int(label.split(":")[1].split()[0])


def _conc_work(arg):
    label, spec, bound, start = arg
    real = uuid.uuid4
    prior = _prior(label)
    try:
        if start == "default-only":
            # the default (zero-deviation) schedule; its subtrees are explored by the other tasks
            res = sched.explore(harness(spec, prior), -1, lambda obs: judge(obs["requests"]))
        else:
            res = sched.explore(harness(spec, prior), bound, lambda obs: judge(obs["requests"]), start=start)
    finally:
        uuid.uuid4 = real
    viols = []
    for p in res["problems"][:50]:
        kind, detail = p["problem"]
        # replay twice: identical observations required before trusting the failure
        try:
            o1 = sched.replay(harness(spec, prior), p["schedule"])
            o2 = sched.replay(harness(spec, prior), p["schedule"])
        finally:
            uuid.uuid4 = real
        # the verdict must reproduce (raw names may legitimately differ between runs if the library keeps
        # process-wide state, e.g. a global serial number)
        k1 = sorted(k for k, _ in judge(o1["requests"]))
        k2 = sorted(k for k, _ in judge(o2["requests"]))
        if k1 != k2 or not k1:
            raise RuntimeError(f"schedule {p['schedule']} of harness {label} does not reproduce deterministically")
        v = {
            "kind": kind,
            "detail": detail,
            "case": {"harness": label, "spec": A.to_jsonable(spec), "schedule": p["schedule"]},
            "program_str": f"threads: {label} schedule={p['schedule']}",
        }
        v["finding"] = findings.attribute("C19", v, {})
        viols.append(v)
    res["violations"] = viols
    res["label"] = label
    res["bound"] = bound
    res["n_problems"] = len(res["problems"])
    del res["problems"]
    return res


def run(tier, seed):
    depth = 3 if tier == "quick" else 4
    acts = seq_actions()
    firsts = [(a,) for a in acts]
    seq = par.pmap(_seq_work, [(depth, ch) for ch in par.chunks(firsts, 16)])
    for d in range(1, depth):
        seq.append(_seq_work((d, [()])))
    tasks = [(label, spec, 2) for label, spec in HARNESSES.items()]
    tasks.append(("counter boundary: 9998 prior requests, then 2x2 same engine", HARNESSES["2x2 same engine"], 1 if tier == "quick" else 2))
    tasks.append(("counter boundary: 9999 prior requests, then 2x2 same engine", HARNESSES["2x2 same engine"], 1 if tier == "quick" else 2))
    tasks.append(("counter boundary: 9998 prior requests, leaf vs materialized", [[("leaf", "e1", "p")], [("materialized", "e1", "p")]], 1))
    if tier == "thorough":
        tasks += [("2x1 bound 3", THOROUGH_EXTRA["2x1 bound 3"], 3), ("3x1 mixed kinds", THOROUGH_EXTRA["3x1 mixed kinds"], 2)]
        tasks += [("2x2 same engine bound 3", HARNESSES["2x2 same engine"], 3)]
    split = []
    real = uuid.uuid4
    try:
        for label, spec, bound in tasks:
            kids = sched.root_children(harness(spec, _prior(label)), bound)
            split.append((label, spec, bound, "default-only"))
            for ch in par.chunks(kids, 12):
                split.append((label, spec, bound, ch))
    finally:
        uuid.uuid4 = real
    parts = par.pmap(_conc_work, split)
    merged = {}
    for r in parts:
        m = merged.setdefault(r["label"], dict(r, by_preemptions={}, executions=0, violations=[], n_problems=0, max_points=0, distinct_outcomes=0, capped=False))
        m["executions"] += r["executions"]
        for k, v in r["by_preemptions"].items():
            m["by_preemptions"][k] = m["by_preemptions"].get(k, 0) + v
        m["violations"] += r["violations"]
        m["n_problems"] += r["n_problems"]
        m["max_points"] = max(m["max_points"], r["max_points"])
        m["distinct_outcomes"] = max(m["distinct_outcomes"], r["distinct_outcomes"])
        m["capped"] = m["capped"] or r["capped"]
    conc = list(merged.values())
    viols = [v for r in seq for v in r["violations"]] + [v for r in conc for v in r["violations"]]
    n_seq = sum(r["n"] for r in seq)
    n_sched = sum(r["executions"] for r in conc)
    cov = {
        "states": n_seq + n_sched,
        "transitions": n_seq * depth + sum(r["executions"] * r["max_points"] for r in conc),
        "traces_validated_against_impl": n_seq + n_sched,
        "evaluations": n_seq + n_sched,
        "distinct_nontrivial": sum(v for r in conc for k, v in r["by_preemptions"].items() if k >= 1) + n_seq - len(acts),
        "sequential_histories": n_seq,
        "sequential_length_bound": depth,
        "schedules": n_sched,
        "harnesses": [
            {
                "label": r["label"],
                "preemption_bound": r["bound"],
                "executions": r["executions"],
                "by_preemptions": r["by_preemptions"],
                "scheduling_points_max": r["max_points"],
                "opcode_events_default_schedule": r["opcode_events_default_schedule"],
                "distinct_counter_outcomes": r["distinct_outcomes"],
                "capped": r["capped"],
                "problem_schedules": r["n_problems"],
            }
            for r in sorted(conc, key=lambda r: r["label"])
        ],
        "rule": RULE,
        "exhaustive": not any(r["capped"] for r in conc),
        "samples": [{"harness": k, "threads": v} for k, v in list(HARNESSES.items())[:3]],
    }
    return {
        "coverage": cov,
        "violations": viols,
        "assumptions": [
            "uuid4 never repeats: modelled by an injective fresh-value oracle executed as one atomic step",
            "scheduling points are CPython bytecode instructions inside /repo/python/lsst/daf/relation (a superset of what the GIL allows)",
            "preemption-bounded: all schedules with <= 2 preemptions (thorough: 3 for the smaller harnesses)",
        ],
    }


def replay(doc):
    c = doc["case"]
    real = uuid.uuid4
    try:
        if "schedule" in c:
            spec = [[tuple(r) for r in th] for th in c["spec"]]
            obs = sched.replay(harness(spec, _prior(c["harness"])), c["schedule"])
            probs = judge(obs["requests"])
            ps = f"threads: {c['harness']} schedule={c['schedule']}"
        else:
            hist = tuple(tuple(h) for h in c["history"])
            r = _seq_work((len(hist), [hist]))
            return r["violations"]
    finally:
        uuid.uuid4 = real
    out = []
    for kind, detail in probs:
        v = {"kind": kind, "detail": detail, "case": c, "program_str": ps}
        v["finding"] = findings.attribute("C19", v, {})
        out.append(v)
    return out
