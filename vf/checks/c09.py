"""C09 - relations are persistent, hashable values; evaluation is side-effect free."""

from __future__ import annotations

import itertools

from lsst.daf.relation import Diagnostics, LeafRelation, MarkerRelation, iteration, sql

from .. import alphabet as A
from .. import findings, par, spaces, walk
from ..alphabet import L, R
from ..realize import Ctx, RealProcessor, compile_sql, run_sql
from ..spaces import S

RULE = (
    "all histories up to the length bound over a shared pool, in two scenarios: starting from a SQL leaf and an "
    "iteration leaf, and starting from a processed transfer into SQL and a processed SQL materialization (both "
    "holding payloads; reduced factory menu); actions "
    "= any factory call of the menu (calculation, projection, selection with a list-backed sequence container, sort, "
    "(incl. a multi-term sort whose first term is a function expression), slice, deduplication, chain with itself, "
    "join, materialization, transfer, projections with a preferred engine) on the two initial members or the two newest pool "
    "members (the result joins the pool), and compile / execute-twice / Processor.process / Diagnostics (with executor) on "
    "any of those members; after the last action of every history the deep fingerprint (structure, columns, bounds, str, "
    "repr, hash, pairwise equality, leaf payload content) of every older pool member must be unchanged, compiling twice "
    "must give identical SQL and executing twice identical rows, every pool member must be hashable, and replaying the "
    "history on the same leaves must give equal relations with equal hashes; non-trivial = history contains an "
    "evaluation action after a factory action; distinct = distinct pool-state digests"
)

FACTORY = (
    ("calc", "x", spaces.NEG_A),
    ("proj", ("a", "b")),
    ("sel", ("in_seq_list", R("a"), (R("b"), L(1)))),
    S((R("b"), False), (R("a"), True)),
    S((spaces.A_PLUS_B, False), (R("c"), True)),
    ("sel", ("gt", spaces.A_PLUS_B, L(2))),
    ("sel", ("in_seq", spaces.A_PLUS_B, (R("c"), L(3)))),
    ("pe", ("calc", "z", spaces.A_PLUS_B), "s", True, False, False),
    ("pe", ("proj", ("b",)), "s", True, False, False),
    ("pe", ("proj", ("c",)), "e1", True, False, False),
    ("slice", 1, 3),
    ("slice", 0, 9),
    ("dedup",),
    ("chain", ("self",)),
    ("join", ("K",), None, False),
    ("join", ("K",), None, True),
    ("join", ("K",), None, False, None, "direct"),
    ("mat", None),
    ("xfer", None),
)
EVALS = ("compile", "execute", "process", "diagnose")


def world():
    # the iteration leaf carries ``parameters`` of an unhashable type (a list, as in the library's own tests):
    # relations must stay hashable and equal-on-rebuild whatever a leaf was given as extra identifying data
    import dataclasses

    from ..realize import World

    w = spaces.multi_world()
    leaves = tuple(dataclasses.replace(s, parameters=(1, 2)) if s.name in ("L", "K") else s for s in w.leaves)
    return World(engines=w.engines, leaves=leaves)


def structure(rel):
    """walk.key without payload-presence flags (materializations legitimately gain payloads)."""

    def strip(k):
        if isinstance(k, tuple):
            if k and k[0] in ("T", "M", "K"):
                return tuple(strip(x) for i, x in enumerate(k) if i != 2)
            return tuple(strip(x) for x in k)
        return k

    return strip(walk.key(rel))


def leaf_content(ctx):
    out = []
    for name, p in sorted(ctx.leaf_payloads.items()):
        if isinstance(p, iteration.RowSequence):
            out.append((name, tuple(tuple(sorted((t.qualified_name, v) for t, v in r.items())) for r in p.rows)))
        elif isinstance(p, sql.Payload):
            out.append(
                (
                    name,
                    id(p.from_clause),
                    tuple(str(w) for w in p.where),
                    tuple(sorted((t.qualified_name, id(c)) for t, c in p.columns_available.items())),
                )
            )
        else:
            out.append((name, repr(p)))
    return tuple(out)


def safe_hash(rel):
    try:
        return ("hash", hash(rel))
    except Exception as e:  # noqa: BLE001
        return ("unhashable", type(e).__name__, str(e)[:80])


def required_columns(rel):
    from lsst.daf.relation import BinaryOperationRelation, UnaryOperationRelation

    out = []
    for n in walk.walk(rel):
        if isinstance(n, UnaryOperationRelation):
            out.append(tuple(sorted(t.qualified_name for t in n.operation.columns_required)))
            for e in walk.expressions_of(n.operation):
                out.append(tuple(sorted(t.qualified_name for t in e.columns_required)))
        elif isinstance(n, BinaryOperationRelation):
            for e in walk.expressions_of(n.operation):
                out.append(tuple(sorted(t.qualified_name for t in e.columns_required)))
    return tuple(out)


def fingerprint(ctx, pool):
    per = []
    for r in pool:
        per.append(
            (
                structure(r),
                required_columns(r),
                str(r),
                repr(r),
                safe_hash(r),
                tuple(sorted(t.qualified_name for t in r.columns)),
                r.min_rows,
                r.max_rows,
                r.is_locked,
                str(r.engine),
            )
        )
    eq = tuple(tuple(pool[i] == pool[j] for j in range(i)) for i in range(len(pool)))
    return (tuple(per), eq, leaf_content(ctx))


def candidates(n, scenario="leaves"):
    """Pool indices an action may address: both leaves and the two newest members."""
    if scenario == "leaves-deep":
        return sorted({1, n - 1, n - 2} & set(range(n)))
    return sorted({0, 1, n - 1, n - 2} & set(range(n)))


def actions(n_pool, scenario="leaves"):
    out = []
    for i in candidates(n_pool, scenario):
        menu = {"leaves": range(len(FACTORY)), "processed": PROCESSED_FACTORY, "leaves-deep": DEEP_FACTORY}[scenario]
        for f in menu:
            out.append(("f", f, i))
        for e in EVALS:
            out.append(("e", e, i))
    return out


PROCESSED_FACTORY = (2, 5, 0, 1, 8, 9)  # indices into FACTORY used in the 'processed' scenario
DEEP_FACTORY = (0, 2, 3, 4, 7, 12, 15, 16)  # reduced menu for the deepest tier ('leaves-deep' scenario)


class Runner:
    def __init__(self, scenario="leaves"):
        self.ctx = Ctx(world())
        self.scenario = scenario
        if scenario in ("leaves", "leaves-deep"):
            self.pool = [self.ctx.leaves["X"], self.ctx.leaves["L"]]
        else:
            self.pool = self.processed_members()
        self.n0 = len(self.pool)
        self.matn = 0
        self.obs = []  # observations of evaluation actions (for the replay-equality oracle)

    def processed_members(self):
        """Two already-processed SQL relations (a transfer and a materialization holding payloads), so that
        histories of length <= 3 reach 'operate directly on a processed marker, then compile twice'."""
        ctx = self.ctx
        t = RealProcessor(ctx).process(ctx.build(("L", ("xfer", "s"))))
        m = ctx.build(("X", ("sel", spaces.P_A_GT_1), ("mat", "m0")))
        RealProcessor(ctx).process(m)
        return [t, m]

    def evaluate(self, rel):
        ctx = self.ctx
        if isinstance(rel.engine, iteration.Engine):
            return [tuple(sorted((t.qualified_name, v) for t, v in row.items())) for row in rel.engine.execute(rel)]
        text, params = compile_sql(rel.engine, rel)
        return [tuple(sorted(r.items())) for r in run_sql(text, params)]

    def step(self, act, problems=None):
        kind, what, i = act
        rel = self.pool[i]
        ctx = self.ctx
        if kind == "f":
            op = FACTORY[what]
            if op[0] == "mat":
                self.matn += 1
                op = ("mat", f"m{self.matn}")
            elif op[0] == "xfer":
                op = ("xfer", "e1" if str(rel.engine) == "s" else "s")
            try:
                new = ctx.apply(rel, op)
            except Exception as e:  # noqa: BLE001
                return ("raised", type(e).__name__)
            self.pool.append(new)
            return ("built", str(new))
        try:
            if what == "compile":
                t1 = compile_sql(rel.engine, rel) if not isinstance(rel.engine, iteration.Engine) else None
                t2 = compile_sql(rel.engine, rel) if t1 is not None else None
                if t1 != t2 and problems is not None:
                    problems.append(("compile-twice-differs", f"{t1} vs {t2}"))
                return ("compiled", t1)
            if what == "execute":
                r1 = self.evaluate(rel)
                r2 = self.evaluate(rel)
                if r1 != r2 and problems is not None:
                    problems.append(("execute-twice-differs", f"{r1[:4]} vs {r2[:4]}"))
                return ("executed", tuple(r1))
            if what == "process":
                out = RealProcessor(ctx).process(rel)
                if out is not rel:
                    self.pool.append(out)
                return ("processed", tuple(self.evaluate(out)))
            if what == "diagnose":

                def executor(r):
                    return bool(self.evaluate(RealProcessor(ctx).process(r)))

                d0 = Diagnostics.run(rel)
                d1 = Diagnostics.run(rel, executor)
                return ("diagnosed", d0.is_doomed, d1.is_doomed)
        except Exception as e:  # noqa: BLE001
            return ("raised", type(e).__name__)
        return None


def run_history(hist, scenario="leaves"):
    """Replay a history on fresh objects; check the invariants around its last action."""
    problems = []
    r = Runner(scenario)
    for act in hist[:-1]:
        r.step(act)
    before = fingerprint(r.ctx, r.pool)
    n_before = len(r.pool)
    res = r.step(hist[-1], problems)
    after = fingerprint(r.ctx, r.pool[:n_before])
    if after != before:
        what = "?"
        for idx, (x, y) in enumerate(zip(before[0], after[0])):
            if x != y:
                names = ("structure", "columns_required", "str", "repr", "hash", "columns", "min_rows", "max_rows", "is_locked", "engine")
                diff = [names[k] for k in range(len(x)) if x[k] != y[k]]
                what = f"pool member {idx} ({str(r.pool[idx])[:80]}) changed in {diff}"
                break
        else:
            if before[1] != after[1]:
                what = "pairwise equality of older pool members changed"
            elif before[2] != after[2]:
                what = "leaf payload content changed"
        problems.append(("older-relation-changed", what))
    for ast, why in A.polluted_expressions():
        problems.append(("shared-expression-changed", f"expression {A.fmt(ast)} (shared between operations) {why}"))
        A.LIB_CACHE.pop(ast, None)
        break
    for m in r.pool:
        h = safe_hash(m)
        if h[0] != "hash":
            problems.append(("unhashable", f"{str(m)[:100]}: {h[1:]}"))
            break
    # replay on the same leaves: equal relations, equal hashes
    pool1 = list(r.pool)
    r2 = Runner.__new__(Runner)
    r2.ctx, r2.pool, r2.matn, r2.obs, r2.scenario, r2.n0 = r.ctx, list(r.pool[: r.n0]), 0, [], scenario, r.n0
    for act in hist:
        r2.step(act)
    if len(r2.pool) != len(pool1):
        problems.append(("replay-diverged", f"pool sizes {len(pool1)} vs {len(r2.pool)}"))
    else:
        for m1, m2 in zip(pool1, r2.pool):
            if not (m1 == m2):
                problems.append(("rebuild-not-equal", f"{str(m1)[:100]} != its rebuild"))
                break
            if safe_hash(m1) != safe_hash(m2):
                problems.append(("rebuild-hash-differs", f"{str(m1)[:100]}"))
                break
    state = walk.digest((tuple(walk.key(m) for m in r.pool),))
    return problems, state, len(r.pool), res


def _work(prefixes):
    depth, items, scenario = prefixes
    viols = []
    states = set()
    n = 0
    nontrivial = 0
    for prefix in items:
        # enumerate all extensions of this prefix up to the depth bound
        stack = [tuple(prefix)]
        while stack:
            hist = stack.pop()
            problems, state, n_pool, res = run_history(hist, scenario)
            n += 1
            states.add(state)
            kinds = [a[0] for a in hist]
            if "f" in kinds and "e" in kinds[kinds.index("f") :]:
                nontrivial += 1
            for kind, detail in problems:
                v = {
                    "kind": kind,
                    "detail": detail,
                    "case": {"history": A.to_jsonable(hist), "scenario": scenario},
                    "program_str": f"[{scenario}] " + " ; ".join(_fmt(a) for a in hist),
                }
                v["finding"] = findings.attribute("C09", v, {})
                viols.append(v)
            if len(hist) < depth:
                for act in actions(n_pool, scenario):
                    stack.append(hist + (act,))
    return {"n": n, "states": states, "violations": viols, "nontrivial": nontrivial}


def _fmt(a):
    kind, what, i = a
    if kind == "f":
        return f"{A.fmt_op(FACTORY[what]) if FACTORY[what][1:] != (None,) else FACTORY[what][0]}(#{i})"
    return f"{what}(#{i})"


def run(tier, seed):
    depth = 3
    tasks = []
    seconds_all = []
    heads = []
    plan = [("leaves", 3), ("processed", 3)] if tier == "quick" else [("leaves", 3), ("processed", 4), ("leaves-deep", 4)]
    for scenario, depth in plan:
        firsts = [(a,) for a in actions(2, scenario)]
        seconds = []
        for f in firsts:
            r = Runner(scenario)
            r.step(f[0])
            for a in actions(len(r.pool), scenario):
                seconds.append(f + (a,))
        seconds_all += seconds
        tasks += [(depth, ch, scenario) for ch in par.chunks(seconds, 128)]
        heads.append((1, firsts, scenario))
    results = par.pmap(_work, tasks) + [_work(h) for h in heads]
    states = set()
    for r in results:
        states |= r["states"]
    viols = [v for r in results for v in r["violations"]]
    n = sum(r["n"] for r in results)
    cov = {
        "states": len(states),
        "transitions": n,
        "traces_validated_against_impl": n,
        "evaluations": n,
        "distinct_nontrivial": sum(r["nontrivial"] for r in results),
        "history_length_bound": dict(plan),
        "actions_at_root": {sc: len(actions(2, sc)) for sc, _ in plan},
        "rule": RULE,
        "exhaustive": True,
        "samples": [" ; ".join(_fmt(a) for a in h) for h in seconds_all[:: max(1, len(seconds_all) // 8)]][:10],
    }
    return {
        "coverage": cov,
        "violations": viols,
        "assumptions": [
            "materialization payload slots are not part of the fingerprint (C07/C10 own them)",
            "actions address the two initial members and the two newest pool members (bounded branching)",
            "library expression objects are shared between operations built from the same mini-AST node",
        ],
    }


def replay(doc):
    hist = tuple(tuple(a) for a in doc["case"]["history"])
    problems, *_ = run_history(hist, doc["case"].get("scenario", "leaves"))
    out = []
    for kind, detail in problems:
        v = {"kind": kind, "detail": detail, "case": doc["case"], "program_str": " ; ".join(_fmt(a) for a in hist)}
        v["finding"] = findings.attribute("C09", v, {})
        out.append(v)
    return out
