"""C13 - predicate folding, conjunction flattening and required-column sets are sound."""

from __future__ import annotations

import itertools

from lsst.daf.relation import Predicate, Selection, flatten_logical_and, iteration

from .. import alphabet as A
from .. import findings, par
from ..alphabet import L, R

ROWS = [{"a": a, "b": b, "p": p} for a in (0, 1, 2) for b in (1, 2) for p in (False, True)]

RULE = (
    "all predicate trees up to depth 3 over every node type (literal, boolean column reference, comparison, "
    "in-range, in-sequence, NOT, AND/OR with 0-3 operands at depth 1 and 0-2 deeper) and all scalar expressions of "
    "depth <= 2, on all 12 rows a in {0,1,2} x b in {1,2} x p in {F,T}; per predicate: as_trivial, flatten_logical_and, "
    "Selection normalisation and columns_required are checked against exhaustive row evaluation through the real "
    "iteration-engine conversion; non-trivial = tree has at least one logical connective; distinct = distinct trees"
)

FN_CMP = ("lt", ("add", R("a"), L(1)), R("b"))  # comparison whose first argument is itself a function

ATOMS = [
    FN_CMP,
    ("in_seq", ("add", R("a"), L(1)), (R("b"), L(2))),
    ("in_range", R("a"), (2, -1, -1)),
    ("plit", True),
    ("plit", False),
    ("pref", "p"),
    ("gt", R("a"), L(1)),
    ("eq", R("b"), R("a")),
    ("in_range", R("a"), (0, 3, 2)),
    ("in_seq", R("a"), (R("b"), L(2))),
]


def subexpressions(e):
    """Proper sub-nodes of a mini-AST node that are expressions/predicates themselves."""
    out = []
    for x in e[1:]:
        if isinstance(x, tuple) and x and isinstance(x[0], str) and x[0] not in ("iteration", "sql"):
            out.append(x)
            out.extend(subexpressions(x))
        elif isinstance(x, tuple):
            for y in x:
                if isinstance(y, tuple) and y and isinstance(y[0], str):
                    out.append(y)
                    out.extend(subexpressions(y))
    return out


def logic(pool, max_arity, require=None):
    res = [("not", x) for x in pool if require is None or x in require]
    for k in ("and", "or"):
        for n in range(0, max_arity + 1):
            for c in itertools.product(pool, repeat=n):
                if require is None or any(x in require for x in c) or n == 0:
                    res.append((k,) + c)
    # LogicalAnd / LogicalOr nodes built directly with the arities the factories fold away (round 10)
    for k in ("andn", "orn"):
        for n in (0, 1):
            for c in itertools.product(pool, repeat=n):
                if require is None or any(x in require for x in c) or n == 0:
                    res.append((k,) + c)
    return res


def predicates(tier):
    d1 = logic(ATOMS, 3)
    d1s = logic(ATOMS, 2)
    d1set = set(d1s)
    pool2 = ATOMS + d1s
    d2 = [("not", x) for x in d1] + [
        (k, x, y) for k in ("and", "or") for x in pool2 for y in pool2 if x in d1set or y in d1set
    ]
    out = [("d0", p) for p in ATOMS] + [("d1", p) for p in d1] + [("d2", p) for p in d2]
    # depth 3: NOT over all depth-2 trees; binary connectives of a depth-2 tree with an atom / depth-1 tree
    d3 = [("not", x) for x in d2]
    partners = ATOMS if tier == "quick" else ATOMS + d1s[:40]
    step = 21 if tier == "quick" else 2
    d2sel = d2[::step]
    for k in ("and", "or"):
        for x in d2sel:
            for y in partners:
                d3.append((k, x, y))
                d3.append((k, y, x))
    out += [("d3", p) for p in d3]
    return out


def scalars():
    from .c12 import scalars as s12

    return [("scalar", e) for e in s12(2)]


def _lib_row(r, cols=None):
    return {A.tag(k): v for k, v in r.items() if cols is None or k in cols}


class _Timeout(Exception):
    pass


def _alarm(signum, frame):
    raise _Timeout()


def _work(chunk):
    """Run one chunk with a per-predicate horizon: state carried over between predicates (a cached list that
    keeps growing, say) must not hang the check."""
    import signal

    signal.signal(signal.SIGALRM, _alarm)
    progress = {"viols": [], "evals": 0, "current": None}
    try:
        return _work_inner(chunk, progress)
    except _Timeout:
        fam, e = progress["current"]
        progress["viols"].append(
            {
                "kind": "library-call-did-not-terminate",
                "detail": "the library calls for one predicate (as_trivial / flatten_logical_and / Selection / conversion; "
                "normally ~100 microseconds) ran for more than 20 s; rest of this chunk skipped",
                "case": {"family": fam, "expr": A.to_jsonable(e)},
                "program_str": A.fmt(e),
                "finding": None,
            }
        )
        return {"n": len(chunk), "evals": progress["evals"], "violations": progress["viols"]}
    finally:
        signal.alarm(0)


def _work_inner(chunk, progress):
    import signal

    ie = iteration.Engine(name="it")
    viols = progress["viols"]
    evals = 0
    full_rows = [_lib_row(r) for r in ROWS]
    for fam, e in chunk:
        progress["current"] = (fam, e)
        progress["evals"] = evals
        signal.alarm(20)
        free = A.free_cols(e)

        def bad(kind, detail):
            v = {"kind": kind, "detail": detail, "case": {"family": fam, "expr": A.to_jsonable(e)}, "program_str": A.fmt(e)}
            v["finding"] = findings.attribute("C13", v, {"expr": e})
            viols.append(v)

        try:
            lib = A.to_lib(e)
        except Exception as ex:  # noqa: BLE001
            bad("construct-raised", f"{type(ex).__name__}: {ex}")
            continue
        req = A.names(lib.columns_required)
        if req != free:
            bad("columns_required", f"declared {sorted(req)} but the expression reads {sorted(free)}")
        # every shared sub-expression must still declare exactly its own columns after the parent was inspected
        for sub in subexpressions(e):
            sreq = A.names(A.to_lib(sub).columns_required)
            if sreq != A.free_cols(sub):
                bad(
                    "subexpression-columns_required",
                    f"after inspecting the parent, shared sub-expression {A.fmt(sub)} declares {sorted(sreq)} but reads {sorted(A.free_cols(sub))}",
                )
                break
        if fam == "scalar":
            try:
                fn = ie.convert_column_expression(lib)
                for r in ROWS:
                    evals += 1
                    want = A.ref_eval(e, r)
                    if fn(_lib_row(r, req)) != want:
                        bad("restricted-row-value", f"row {r}")
                        break
            except Exception as ex:  # noqa: BLE001
                bad("restricted-row-raised", f"{type(ex).__name__}: {ex}")
            continue
        ref_vals = [bool(A.ref_eval(e, r)) for r in ROWS]
        # columns_required sufficiency
        try:
            fn = ie.convert_predicate(lib)
            got_full = [bool(fn(r)) for r in full_rows]
            got_restricted = [bool(fn(_lib_row(r, req))) for r in ROWS]
            evals += 2 * len(ROWS)
            if got_full != ref_vals:
                bad("iteration-value", "iteration callable disagrees with direct evaluation")
            if got_restricted != got_full:
                bad("restricted-row-value", "value changes when the row is restricted to columns_required")
        except Exception as ex:  # noqa: BLE001
            bad("restricted-row-raised", f"{type(ex).__name__}: {ex}")
        # constant folding
        t = lib.as_trivial()
        if t is not None:
            if t is not True and t is not False:
                bad("as_trivial-type", f"as_trivial returned {t!r}")
            elif any(v != t for v in ref_vals):
                bad("as_trivial", f"as_trivial()={t} but the predicate is {not t} on row {ROWS[ref_vals.index(not t)]}")
        # flattening
        fl = flatten_logical_and(lib)
        if fl is False:
            if any(ref_vals):
                bad("flatten-false", f"flatten_logical_and reports False but predicate is true on {ROWS[ref_vals.index(True)]}")
        elif len(fl) > 1 + len(subexpressions(e)):
            bad(
                "flatten-too-many-conjuncts",
                f"flatten_logical_and returned {len(fl)} conjuncts for a tree with {1 + len(subexpressions(e))} nodes",
            )
        else:
            try:
                fns = [ie.convert_predicate(c) for c in fl]
                got = [all(bool(f(r)) for f in fns) for r in full_rows]
                evals += len(ROWS)
                if got != ref_vals:
                    bad("flatten-equivalence", f"AND of {len(fl)} conjuncts differs from the original")
            except Exception as ex:  # noqa: BLE001
                bad("flatten-raised", f"{type(ex).__name__}: {ex}")
        # Selection normalisation
        try:
            sp = Selection(lib).predicate
            f2 = ie.convert_predicate(sp)
            got = [bool(f2(r)) for r in full_rows]
            evals += len(ROWS)
            if got != ref_vals:
                bad("selection-normalisation", f"Selection stored {sp} which is not equivalent to the supplied predicate")
            if not A.names(sp.columns_required) <= free:
                bad("selection-columns", "normalised predicate requires columns the original does not read")
        except Exception as ex:  # noqa: BLE001
            bad("selection-raised", f"{type(ex).__name__}: {ex}")
    return {"n": len(chunk), "evals": evals, "violations": viols}


def run(tier, seed):
    cases = predicates(tier) + scalars()
    fams = {}
    for f, _ in cases:
        fams[f] = fams.get(f, 0) + 1
    try:
        results = par.pmap(_work, par.chunks(cases, 256), stall_timeout=300)
        stalled = None
    except par.Stalled as st:
        results, stalled = [], str(st)
    viols = [v for r in results for v in r["violations"]]
    if stalled:
        viols.append(
            {
                "kind": "library-call-did-not-terminate",
                "detail": f"predicate checks stalled: {stalled}; a chunk of ~1000 predicates normally takes well under a second - "
                "state carried over between library calls (e.g. a cached list that keeps growing) makes them blow up",
                "case": {"family": "stall", "expr": ["plit", True]},
                "program_str": "(whole run)",
                "finding": None,
            }
        )
    evals = max(1, sum(r["evals"] for r in results))
    nontrivial = sum(1 for f, e in cases if e[0] in ("and", "or", "andn", "orn", "not"))
    folded = 0
    cov = {
        "states": len(cases) * len(ROWS),
        "transitions": evals,
        "traces_validated_against_impl": evals,
        "evaluations": evals,
        "distinct_nontrivial": nontrivial,
        "expressions": len(cases),
        "families": fams,
        "rows": len(ROWS),
        "rule": RULE,
        "exhaustive": True,
        "samples": [{"family": f, "expr": A.fmt(e)} for f, e in cases[:: max(1, len(cases) // 10)]][:12],
    }
    return {
        "coverage": cov,
        "violations": viols,
        "assumptions": ["columns_required is compared with the syntactic free columns of the mini-AST"],
    }


def replay(doc):
    e = A.from_jsonable(doc["case"]["expr"])
    return _work([(doc["case"]["family"], e)])["violations"]
