"""C16 - Diagnostics never dooms a non-empty relation; exact with a truthful executor."""

from __future__ import annotations

from lsst.daf.relation import Diagnostics

from .. import spaces, walk
from ..explore import Check, SubSpace, coverage_from, explore, replay_case
from .common import classify_basic, is_sql

RULE = (
    "every program over the iteration and SQL alphabets extended with the doomed and join-identity leaves (as roots "
    "and as chain/join operands), trivially false predicates and zero-limit slices, from every leaf configuration, up to "
    "the depth bound, plus three-engine trees (transfers, iteration materializations, statically and dynamically empty "
    "branches, joins after transfer into SQL) with a Processor-backed executor; each tree is diagnosed without an executor and with a truthful executor (real execution of the "
    "sub-relation it is handed); oracle: no executor: is_doomed => reference empty; executor: is_doomed <=> reference "
    "empty; is_doomed => messages non-empty; non-trivial = the verdict is 'doomed' or the reference is empty; "
    "distinct = distinct (tree, verdicts) digests"
)

# column-free predicates that are NOT literals: constant, yet neither foldable by as_trivial() nor "invariant"
P_CONST_FALSE = ("gt", ("lit", 5), ("lit", 7))
P_CONST_TRUE = ("lt", ("lit", 5), ("lit", 7))
IT_EXTRA = (
    # a leaf that compares equal to the (dynamically empty) root Eloose but has rows: an executor answer
    # remembered per relation VALUE would doom the union
    ("chain", ("ELtwin",)),
    ("chain", ("ELtwin",), True),
    ("sel", P_CONST_FALSE),
    ("sel", P_CONST_TRUE),
    ("chain", ("self", ("slice", 0, 0))),
    ("chain", ("self", ("sel", ("gt", ("ref", "a"), ("lit", 99)))), True),
    ("sel", ("in_range", ("ref", "a"), (3, 0, -1))),("chain", ("D0",)), ("chain", ("Eloose",)), ("chain", ("L",)), ("chain", ("L",), True))
SQL_EXTRA = (
    ("chain", ("ELtwin",)),
    ("chain", ("ELtwin",), True),
    ("sel", P_CONST_FALSE),
    ("sel", P_CONST_TRUE),
    ("join", ("K",), P_CONST_FALSE, False),
    ("join", ("K", ("proj", ("d",))), ("gt", ("ref", "d"), ("lit", 100)), False),
    ("join", ("K", ("proj", ("d",))), None, False),
    ("sel", ("in_range", ("ref", "a"), (3, 0, -1))),
    ("chain", ("X",)),
    ("chain", ("X",), True),
    ("chain", ("D0",)),
    ("chain", ("Eloose",)),
    ("join", ("D0",), None, False),
    ("join", ("K",), ("plit", False), False),
    ("join", ("E", ("proj", ("a",))), None, False),
)


MULTI16 = (
    ("xfer", "s"),
    ("xfer", "e1"),
    ("xfer", "e2"),
    ("mat", "m1"),
    ("calc", "x", spaces.NEG_A),
    ("proj", ("a", "b")),
    ("proj", ()),
    ("sel", spaces.P_A_GT_1),
    ("sel", ("gt", ("ref", "a"), ("lit", 99))),
    ("sel", spaces.P_FALSE),
    ("sel", P_CONST_FALSE),
    ("dedup",),
    ("slice", 1, 3),
    ("slice", 6, 8),
    ("slice", 0, 0),
    ("chain", ("self",)),
    ("chain", ("E",)),
    ("chain", ("E1",)),
    ("chain", ("D1",), True),
    ("chain", ("DS",)),
    ("chain", ("L",)),
    ("chain", ("X",)),
    ("chain", ("self", ("slice", 0, 0))),
    ("chain", ("self", ("sel", ("gt", ("ref", "a"), ("lit", 99)))), True),
    ("join", ("K",), None, False),
    ("join", ("K",), ("plit", False), False),
)


class C16(Check):
    pid = "C16"

    def subspaces(self, tier):
        iw, sw = spaces.it_world(), spaces.sql_world()
        it_ops = spaces.IT_FULL + IT_EXTRA
        it_red = spaces.IT_REDUCED + IT_EXTRA
        sql_ops = tuple(o for o in spaces.SQL_FULL if o[0] != "mat") + SQL_EXTRA
        sql_red = tuple(o for o in spaces.SQL_REDUCED if o[0] != "mat") + SQL_EXTRA
        if tier == "quick":
            return [
                SubSpace("it/full+/d2", iw, spaces.IT_ROOTS_ALL + ("D0",), it_ops, 2),
                SubSpace("it/full+/d3", iw, ("L", "Eloose", "D0"), it_ops, 3),
                SubSpace("sql/full+/d2", sw, ("X", "Eloose", "E", "D0"), sql_ops, 2),
                SubSpace("sql/full+/X/d3", sw, ("X", "Eloose"), sql_ops, 3),
                SubSpace("multi/d3", spaces.multi_world(), ("X", "L", "E", "E1"), MULTI16, 3),
            ]
        return [
            SubSpace("it/full+/d3", iw, spaces.IT_ROOTS_ALL + ("D0",), it_ops, 3),
            SubSpace("it/reduced+/d4", iw, ("L", "Eloose"), it_red, 4),
            SubSpace("sql/full+/d3", sw, ("X", "Eloose", "E", "D0", "Xunb"), sql_ops, 3),
            SubSpace("sql/reduced+/X/d5", sw, ("X",), sql_red, 5),
            SubSpace("sql/reduced+/X/d4", sw, ("X", "Eloose"), sql_red, 4),
            SubSpace("multi/d4", spaces.multi_world(), ("X", "L", "E", "E1"), MULTI16, 4),
        ]

    def judge(self, tr):
        if not classify_basic(tr):
            return False
        rel, val, ctx = tr.rel, tr.val, tr.ctx
        calls = []
        multi = tr.sub.label.startswith("multi")
        if multi:
            from ..realize import RealProcessor

        def executor(r):
            if multi:
                r = RealProcessor(ctx).process(r)
            rows = ctx.rows_of(r)
            calls.append(len(rows))
            return bool(rows)

        try:
            d0 = Diagnostics.run(rel)
        except Exception as e:  # noqa: BLE001
            tr.violation("diagnostics-raised", f"no executor: {type(e).__name__}: {e}")
            return True
        try:
            d1 = Diagnostics.run(rel, executor)
        except Exception as e:  # noqa: BLE001
            # execution failures of sub-relations are C08's business; count and move on
            tr.count("executor_failed:" + type(e).__name__)
            d1 = None
        tr.count("executor_calls", len(calls))
        if val.amb and not val.cdet:
            tr.count("emptiness_undetermined_skipped")
            return True
        empty = len(val.rows) == 0
        tr.nontrivial = empty or d0.is_doomed or (d1 is not None and d1.is_doomed)
        tr.outcome = (walk.key(rel), d0.is_doomed, None if d1 is None else d1.is_doomed)
        tr.count("reference_empty" if empty else "reference_nonempty")
        if d0.is_doomed:
            tr.count("doomed_without_executor")
            if not empty:
                tr.violation("doomed-nonempty", f"no executor: doomed but the relation has {len(val.rows)} rows; messages={d0.messages}")
            if not d0.messages:
                tr.violation("doomed-without-message", "no executor: doomed verdict carries no message")
        if d1 is not None:
            if d1.is_doomed != empty:
                tr.violation(
                    "executor-inexact",
                    f"with a truthful executor is_doomed={d1.is_doomed} but the relation has {len(val.rows)} rows; messages={d1.messages}",
                )
            if d1.is_doomed and not d1.messages:
                tr.violation("doomed-without-message", "executor: doomed verdict carries no message")
        return True


def run(tier, seed):
    res = explore(C16(), tier, seed)
    return {
        "coverage": coverage_from(res, RULE),
        "violations": res["violations"],
        "assumptions": [
            "multi-engine trees use an executor that processes the sub-relation with the real Processor before executing it",
            "the executor answers by really executing the sub-relation it is handed",
            "programs whose emptiness the reference cannot determine (operations after an ambiguous slice) are skipped and counted",
        ],
    }


def replay(doc):
    return replay_case(C16(), doc["case"])
