"""Level-synchronous breadth-first explorer over programs of real factory calls.

A *state* is a reached (relation tree, reference value) pair, represented by the program
(tuple of alphabet indices) that builds it.  Every transition is a real factory call on
real objects; the check's ``judge`` evaluates its oracle on every transition (not only on
new states).  States are merged on a digest of the canonical tree key and the reference
value; a state first reached at depth k is expanded with the full remaining budget, so
every program of depth <= D is covered up to that equivalence.
"""

from __future__ import annotations

import collections
import dataclasses
import multiprocessing as mp
import os
import random
import time
import traceback
from typing import Any

from . import alphabet as A
from . import walk
from .realize import LIB_REJECT, Ctx, World, classify_exc
from .refmodel import RefOOC, RefReject, RefVal, ref_apply

NWORKERS = int(os.environ.get("VERIF_WORKERS", "16"))


@dataclasses.dataclass
class SubSpace:
    label: str
    world: World
    roots: tuple  # leaf names to start from
    ops: tuple  # alphabet (ops in the mini-AST)
    depth: int
    payload_factory: Any = None
    # ops allowed only at the last step (e.g. diagnostics-only), none by default


class Transition:
    """One explored edge, handed to ``Check.judge``."""

    __slots__ = (
        "sub",
        "ctx",
        "prog",
        "op",
        "parent_rel",
        "parent_val",
        "rel",
        "exc",
        "val",
        "rej",
        "ooc",
        "counters",
        "violations",
        "outcome",
        "nontrivial",
        "samples",
        "check",
        "depth",
        "pre_state_flag",
        "counterfactual",
        "aux",
    )

    def program(self):
        """Full program (mini-AST) including the new op."""
        return self.prog + (self.op,)

    def case(self):
        return {"sub": self.sub.label, "program": A.to_jsonable(self.program())}

    def count(self, name, n=1):
        self.counters[name] += n

    def violation(self, kind, detail, **extra):
        v = {"kind": kind, "detail": detail, "case": self.case(), "program_str": A.fmt_prog(self.program())}
        v.update(extra)
        from . import findings

        v["finding"] = findings.attribute(self.check.pid, v, self)
        self.violations.append(v)


def _lib_step(ctx, rel, op):
    try:
        return ctx.apply(rel, op), None
    except BaseException as e:  # noqa: BLE001 - everything the library raises is an observation
        if isinstance(e, (KeyboardInterrupt, SystemExit)):
            raise
        return None, e


def _ref_step(val, op, scen, rel):
    has_sort = None
    if rel is not None:
        hs = getattr(rel, "has_sort", None)
        has_slice = getattr(rel, "has_slice", None)
        if hs is not None:
            has_sort = bool(hs) and not bool(has_slice)
    observed_engine = None if rel is None else str(rel.engine)
    try:
        return ref_apply(val, op, scen, has_sort, observed_engine), None, False
    except RefReject as r:
        return None, r, False
    except RefOOC:
        return None, None, True


_CHECK = None
_SUBS = None


def _expand(task):
    """Worker: expand a batch of frontier programs of one subspace."""
    sub_i, progs, last_level, sample_rate, *_rest = task
    _task_id = _rest[0] if _rest else None
    check = _CHECK
    sub: SubSpace = _SUBS[sub_i]
    scen = sub.world.scenario()
    counters = collections.Counter()
    violations: list = []
    succ: list = []
    outcomes: set = set()
    nontrivial: set = set()
    samples: list = []
    keys_last: list = []
    try:
        for root, idxs in progs:
            ctx = Ctx(sub.world, sub.payload_factory)
            rel = ctx.leaves[root]
            val = scen.leaf_val(root)
            prog = (root,)
            ok = True
            for i in idxs:
                op = sub.ops[i]
                rel2, exc = _lib_step(ctx, rel, op)
                val2, rej, ooc = _ref_step(val, op, scen, rel2)
                if rel2 is None or val2 is None:
                    ok = False
                    break
                rel, val, prog = rel2, val2, prog + (op,)
            if not ok:
                # The harness side of a replay is a pure function of (world, program): fresh engines and
                # leaves, no randomness.  A program that was accepted when its parent was expanded and is
                # not accepted now, in another process, means library behaviour depends on process history.
                v = {
                    "kind": "history-dependent-behaviour",
                    "detail": f"program was accepted in one worker process but step {A.fmt_op(op)} is "
                    f"{'rejected by the library (' + type(exc).__name__ + ')' if rel2 is None else 'rejected by the reference'} "
                    "when rebuilt in another: the outcome of a factory call depends on earlier, unrelated calls",
                    "case": {"sub": sub.label, "program": A.to_jsonable((root,) + tuple(sub.ops[j] for j in idxs))},
                    "program_str": A.fmt_prog((root,) + tuple(sub.ops[j] for j in idxs)),
                    "finding": None,
                }
                violations.append(v)
                continue
            check.enter_state(ctx, sub, prog, rel, val)
            for oi, op in enumerate(sub.ops):
                tr = Transition()
                tr.sub, tr.ctx, tr.prog, tr.op = sub, ctx, prog, op
                tr.parent_rel, tr.parent_val = rel, val
                tr.counters, tr.violations, tr.samples = counters, violations, samples
                tr.outcome = None
                tr.nontrivial = False
                tr.pre_state_flag = None
                tr.counterfactual = None
                tr.aux = {}
                tr.check = check
                tr.depth = len(idxs) + 1
                tr.rel, tr.exc = _lib_step(ctx, rel, op)
                tr.val, tr.rej, tr.ooc = _ref_step(val, op, scen, tr.rel)
                counters["transitions"] += 1
                expand = check.judge(tr)
                if tr.outcome is not None:
                    dg = walk.digest(tr.outcome)
                    outcomes.add(dg)
                    if tr.nontrivial:
                        nontrivial.add(dg)
                if expand is None:
                    expand = tr.rel is not None and tr.val is not None
                if expand:
                    k = walk.digest((sub_i, walk.key(tr.rel), tr.val.digest()))
                    if last_level:
                        keys_last.append(k)
                    else:
                        succ.append(((root, idxs + (oi,)), k))
                if sample_rate and random.random() < sample_rate and len(samples) < 3:
                    check.sample(tr)
    except BaseException as e:  # noqa: BLE001
        return {"error": f"{type(e).__name__}: {e}\n{traceback.format_exc()}", "task": _task_id}
    return {
        "task": _task_id,
        "sub": sub_i,
        "counters": counters,
        "violations": violations,
        "succ": succ,
        "keys_last": keys_last,
        "outcomes": outcomes,
        "nontrivial": nontrivial,
        "samples": samples,
    }


class Check:
    """Base class for program-exploration checks."""

    pid = "C00"

    def subspaces(self, tier) -> list:
        raise NotImplementedError

    def enter_state(self, ctx, sub, prog, rel, val):
        pass

    def judge(self, tr: Transition):
        raise NotImplementedError

    def sample(self, tr: Transition):
        tr.samples.append(
            {
                "program": A.fmt_prog(tr.program()),
                "accepted": tr.rel is not None,
                "reference_rows": None if tr.val is None else [dict(r) for r in tr.val.rows[:6]],
                "tree": None if tr.rel is None else str(tr.rel),
            }
        )


class HarnessError(Exception):
    pass


STALL_S = float(os.environ.get("VERIF_STALL_S", "240"))


def _stall_violation(sub, root, idxs, where):
    prog = (root,) + tuple(sub.ops[j] for j in idxs)
    return {
        "kind": "library-call-did-not-terminate",
        "detail": f"no exploration task finished within {STALL_S:.0f} s ({where}); a task normally takes well under a "
        f"second. An expansion of this state or of one explored alongside it does not return (non-terminating "
        f"execution, e.g. a row iterable that feeds itself). Exploration stopped here; not exhaustive.",
        "case": {"sub": sub.label, "program": A.to_jsonable(prog), "stall": True},
        "program_str": A.fmt_prog(prog) + " ; <any operation>",
        "finding": None,
    }


def _stalled_result(subs, violations, counters, t0):
    return {
        "counters": counters,
        "violations": violations,
        "samples": [],
        "states": 0,
        "transitions": counters["transitions"],
        "distinct_outcomes": 0,
        "distinct_nontrivial": 0,
        "subspaces": [{"label": s.label, "ops": len(s.ops), "depth_bound": s.depth, "depth_completed": 0, "states": 0} for s in subs],
        "capped": True,
        "wall_s": time.time() - t0,
        "alphabets": {s.label: [A.fmt_op(o) for o in s.ops] for s in subs},
    }


def explore(check: Check, tier: str, seed: int, time_cap: float | None = None):
    """Run the BFS for every subspace of the check.  Returns a result dict."""
    global _CHECK, _SUBS
    subs = check.subspaces(tier)
    _CHECK, _SUBS = check, subs
    rng = random.Random(seed)
    t0 = time.time()
    counters = collections.Counter()
    violations: list = []
    samples: list = []
    outcomes: set = set()
    nontrivial: set = set()
    seen: set = set()
    per_sub = []
    ctx = mp.get_context("fork")
    capped = False
    with ctx.Pool(NWORKERS) as pool:
        # determinism self-check: expand the root level of each subspace twice in separate tasks
        for si, sub in enumerate(subs):
            t = (si, [(r, ()) for r in sub.roots], sub.depth <= 1, 0.0)
            try:
                r1, r2 = pool.map_async(_expand, [t, t]).get(STALL_S)
            except mp.TimeoutError:
                violations.append(_stall_violation(sub, sub.roots[0], (), f"root level of {sub.label}"))
                pool.terminate()
                return _stalled_result(subs, violations, counters, t0)
            for r in (r1, r2):
                if "error" in r:
                    raise HarnessError(r["error"])
            if (r1["succ"], r1["keys_last"], sorted(r1["outcomes"]), r1["counters"]) != (
                r2["succ"],
                r2["keys_last"],
                sorted(r2["outcomes"]),
                r2["counters"],
            ):
                raise HarnessError(f"nondeterministic expansion in subspace {sub.label}")
        counters["determinism_selfcheck_tasks"] += 2 * len(subs)
        frontiers = {si: [(r, ()) for r in sub.roots] for si, sub in enumerate(subs)}
        states_per_sub = collections.Counter()
        depth_done = collections.Counter()
        level = 0
        while any(frontiers.values()):
            level += 1
            tasks = []
            for si, fr in frontiers.items():
                if not fr:
                    continue
                sub = subs[si]
                last = level >= sub.depth
                rng.shuffle(fr)
                chunk = max(1, min(200, len(fr) // (NWORKERS * 4) + 1))
                rate = min(1.0, 50.0 / (len(fr) * max(1, len(sub.ops))))
                for j in range(0, len(fr), chunk):
                    tasks.append((si, fr[j : j + chunk], last, rate, len(tasks)))
            nxt = {si: [] for si in frontiers}
            outstanding = set(range(len(tasks)))
            results_it = pool.imap_unordered(_expand, tasks)
            while True:
                try:
                    res = results_it.next(STALL_S)
                except StopIteration:
                    break
                except mp.TimeoutError:
                    # no worker delivered anything for STALL_S seconds (a task normally takes well under a second):
                    # some library call does not terminate.  Name the first program of up to three unfinished tasks.
                    for ti in sorted(outstanding)[:3]:
                        si_, progs_ = tasks[ti][0], tasks[ti][1]
                        root_, idxs_ = progs_[0]
                        violations.append(_stall_violation(subs[si_], root_, idxs_, f"level {level}, {len(outstanding)} task(s) unfinished"))
                    capped = True
                    break
                outstanding.discard(res.get("task"))
                if "error" in res:
                    raise HarnessError(res["error"])
                si = res["sub"]
                counters.update(res["counters"])
                violations.extend(res["violations"])
                outcomes |= res["outcomes"]
                nontrivial |= res["nontrivial"]
                if len(samples) < 12:
                    samples.extend(res["samples"][: 12 - len(samples)])
                for k in res["keys_last"]:
                    if k not in seen:
                        seen.add(k)
                        states_per_sub[si] += 1
                for item, k in res["succ"]:
                    if k not in seen:
                        seen.add(k)
                        states_per_sub[si] += 1
                        nxt[si].append(item)
                if time_cap and time.time() - t0 > time_cap:
                    capped = True
                    break
            for si in list(nxt):
                if frontiers[si] and not capped:
                    depth_done[si] = level
                if level >= subs[si].depth or capped:
                    nxt[si] = []
            frontiers = nxt
            if capped:
                pool.terminate()
                break
    for si, sub in enumerate(subs):
        per_sub.append(
            {
                "label": sub.label,
                "ops": len(sub.ops),
                "depth_bound": sub.depth,
                "depth_completed": depth_done[si],
                "states": states_per_sub[si] + len(sub.roots),
            }
        )
    return {
        "counters": counters,
        "violations": violations,
        "samples": samples,
        "states": len(seen) + sum(len(s.roots) for s in subs),
        "transitions": counters["transitions"],
        "distinct_outcomes": len(outcomes),
        "distinct_nontrivial": len(nontrivial),
        "subspaces": per_sub,
        "capped": capped,
        "wall_s": time.time() - t0,
        "alphabets": {s.label: [A.fmt_op(o) for o in s.ops] for s in subs},
    }


def replay_case(check: Check, case):
    """Re-run the single last transition of a recorded case; returns the violations it raises."""
    global _CHECK
    _CHECK = check
    if case.get("stall"):
        # re-executing would hang again; hand the recorded verdict back
        return [
            {
                "kind": "library-call-did-not-terminate",
                "detail": "recorded stall (not re-executed: the recorded expansion does not terminate)",
                "case": case,
                "program_str": A.fmt_prog(A.from_jsonable(case["program"])),
                "finding": None,
            }
        ]
    prog = A.from_jsonable(case["program"])
    sub = None
    for tier in ("quick", "thorough"):
        for sb in check.subspaces(tier):
            if sb.label == case["sub"]:
                sub = sb
                break
        if sub:
            break
    if sub is None:
        # witness recorded by another check sharing the same world: match on the world prefix
        for sb in check.subspaces("quick"):
            if sb.label.split("/")[0] == case["sub"].split("/")[0]:
                sub = sb
                break
    if sub is None:
        raise HarnessError(f"unknown subspace {case['sub']}")
    scen = sub.world.scenario()
    ctx = Ctx(sub.world, sub.payload_factory)
    rel = ctx.leaves[prog[0]]
    val = scen.leaf_val(prog[0])
    for op in prog[1:-1]:
        rel2, exc = _lib_step(ctx, rel, op)
        val2, rej, ooc = _ref_step(val, op, scen, rel2)
        if rel2 is None or val2 is None:
            raise HarnessError(f"replay: prefix step {A.fmt_op(op)} not accepted (lib exc={exc!r}, ref rej={rej!r})")
        rel, val = rel2, val2
    check.enter_state(ctx, sub, prog[:-1], rel, val)
    tr = Transition()
    tr.sub, tr.ctx, tr.prog, tr.op = sub, ctx, prog[:-1], prog[-1]
    tr.parent_rel, tr.parent_val = rel, val
    tr.counters, tr.violations, tr.samples = collections.Counter(), [], []
    tr.outcome, tr.nontrivial, tr.check, tr.depth = None, False, check, len(prog) - 1
    tr.pre_state_flag = None
    tr.counterfactual = None
    tr.aux = {}
    tr.rel, tr.exc = _lib_step(ctx, rel, tr.op)
    tr.val, tr.rej, tr.ooc = _ref_step(val, tr.op, scen, tr.rel)
    check.judge(tr)
    return tr.violations


def coverage_from(res, rule, extra=None):
    """Standard model_checking coverage block from an explore() result."""
    c = res["counters"]
    cov = {
        "states": res["states"],
        "transitions": res["transitions"],
        "traces_validated_against_impl": res["transitions"],
        "evaluations": res["transitions"],
        "distinct_outcomes": res["distinct_outcomes"],
        "distinct_nontrivial": res["distinct_nontrivial"],
        "rule": rule,
        "exhaustive": not res["capped"],
        "capped": res["capped"],
        "subspaces": res["subspaces"],
        "counters": dict(sorted(c.items())),
        "samples": res["samples"][:8],
        "alphabets": res["alphabets"],
    }
    if extra:
        cov.update(extra)
    return cov
