"""Known-finding registry: cause tests that attribute a violation to a listed genuine defect.

``known_findings.json`` (committed, never written at run time) lists the findings; each names a
matcher defined here.  A matcher receives the violation dict and a context (the live
``Transition`` or a check-specific dict) and returns True iff the violation is an instance of
that finding: *symptom* (violation kind / exception class / phase / message) **and** *cause*
(a structural predicate on the real tree, or a counterfactual repair under which the single
case no longer fails).  Anything not attributed is reported as a VIOLATION.
"""

from __future__ import annotations

import contextlib
import json
import os

ROOT = os.path.dirname(os.path.dirname(os.path.abspath(__file__)))
PATH = os.path.join(ROOT, "known_findings.json")

MATCHERS: dict = {}


def matcher(name):
    def deco(fn):
        MATCHERS[name] = fn
        return fn

    return deco


_CACHE = None


def load():
    global _CACHE
    if _CACHE is None:
        if os.path.exists(PATH):
            with open(PATH) as f:
                _CACHE = json.load(f)
        else:
            _CACHE = {"findings": [], "fixed": []}
    return _CACHE


def findings_for(pid):
    return [f for f in load()["findings"] if pid in f["properties"] and f.get("status", "known") == "known"]


def attribute(pid, violation, context):
    """Return the id of the listed finding this violation is an instance of, or None."""
    for f in findings_for(pid):
        m = MATCHERS.get(f["matcher"])
        if m is None:
            continue
        try:
            if m(pid, violation, context):
                return f["id"]
        except Exception:  # noqa: BLE001 - a matcher that cannot decide attributes nothing
            continue
    return None


@contextlib.contextmanager
def patched(obj, attr, new):
    old = getattr(obj, attr)
    setattr(obj, attr, new)
    try:
        yield
    finally:
        setattr(obj, attr, old)
