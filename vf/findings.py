"""Known-finding registry: cause tests that attribute a violation to a listed genuine defect.

``known_findings.json`` (committed, never written at run time) lists the findings; each names a
matcher defined here.  A matcher receives the violation dict and a context (the live
``Transition`` or a check-specific dict) and returns True iff the violation is an instance of
that finding: *symptom* (violation kind / exception class / phase / message) **and** *cause*
(a structural predicate on the real tree, or a counterfactual repair under which the single
case no longer fails).  Anything not attributed is reported as a VIOLATION.
"""

from __future__ import annotations

import contextlib
import json
import os

ROOT = os.path.dirname(os.path.dirname(os.path.abspath(__file__)))
PATH = os.path.join(ROOT, "known_findings.json")

MATCHERS: dict = {}


def matcher(name):
    def deco(fn):
        MATCHERS[name] = fn
        return fn

    return deco


_CACHE = None


def load():
    global _CACHE
    if _CACHE is None:
        if os.path.exists(PATH):
            with open(PATH) as f:
                _CACHE = json.load(f)
        else:
            _CACHE = {"findings": [], "fixed": []}
    return _CACHE


def findings_for(pid):
    return [f for f in load()["findings"] if pid in f["properties"] and f.get("status", "known") == "known"]


def attribute(pid, violation, context):
    """Return the id of the listed finding this violation is an instance of, or None."""
    for f in findings_for(pid):
        m = MATCHERS.get(f["matcher"])
        if m is None:
            continue
        try:
            if m(pid, violation, context):
                return f["id"]
        except Exception:  # noqa: BLE001 - a matcher that cannot decide attributes nothing
            continue
    return None


@contextlib.contextmanager
def patched(obj, attr, new):
    old = getattr(obj, attr)
    setattr(obj, attr, new)
    try:
        yield
    finally:
        setattr(obj, attr, old)


# ----------------------------------------------------------------------------- structural predicates
def _from_scope_leaves(node, out):
    """Leaves that end up in the same FROM clause as ``node`` (stop at Select = subquery boundary)."""
    from lsst.daf.relation import BinaryOperationRelation, LeafRelation, MarkerRelation, UnaryOperationRelation, sql

    match node:
        case sql.Select():
            return
        case LeafRelation():
            out.append(("leaf", id(node.payload)))  # the table, not the name (two leaves may share a name)
        case UnaryOperationRelation():
            _from_scope_leaves(node.target, out)
        case BinaryOperationRelation():
            _from_scope_leaves(node.lhs, out)
            _from_scope_leaves(node.rhs, out)
        case MarkerRelation():
            # a Materialization/Transfer with a payload is a table of its own
            out.append(("marker", id(node)))


def same_table_twice_in_from(rel) -> bool:
    """True iff some Join node's FROM scope contains the same leaf table twice (would need aliasing)."""
    from lsst.daf.relation import BinaryOperationRelation, Join

    from . import walk

    for n in walk.walk(rel):
        if isinstance(n, BinaryOperationRelation) and isinstance(n.operation, Join):
            names: list = []
            _from_scope_leaves(n, names)
            if len(set(names)) != len(names):
                return True
    return False


def _rel_of(context):
    rel = getattr(context, "rel", None)
    if rel is None and isinstance(context, dict):
        rel = context.get("rel")
    return rel


@matcher("same_table_twice_in_from")
def _m_same_table(pid, v, context):
    if v.get("kind") not in ("database-raised", "processed-tree-not-executable", "process-raised", "executor-failed"):
        return False
    detail = v.get("detail", "")
    if "OperationalError" not in detail or not ("ambiguous column name" in detail or "no such column" in detail):
        return False
    rel = _rel_of(context)
    if rel is not None and same_table_twice_in_from(rel):
        return True
    # processing may prune a statically empty chain branch and thereby un-nest a join: judge the processed tree too
    processed = (getattr(context, "aux", None) or {}).get("processed")
    return processed is not None and same_table_twice_in_from(processed)


@matcher("projection_past_deduplication")
def _m_proj_dedup(pid, v, context):
    if pid == "C04":
        ex, nw = context.get("existing"), context.get("new")
        return v.get("kind") == "rows" and ex is not None and ex[0] == "dedup" and nw[0] == "proj"
    if pid == "C03":
        fn = context.get("counterfactual") if isinstance(context, dict) else getattr(context, "counterfactual", None)
        return v.get("kind") in ("rows", "rows-vs-plain", "rows-on-processed-base") and bool(
            fn and fn("projection_past_deduplication")
        )
    return False


def repair_projection_past_deduplication():
    """Context manager: in-process counterfactual repair - Projection.commute refuses Deduplication."""
    from lsst.daf.relation import Deduplication, Projection, UnaryCommutator

    orig = Projection.commute

    def commute(self, current):
        if isinstance(current.operation, Deduplication):
            return UnaryCommutator(
                first=None, second=current.operation, done=False, messages=("counterfactual repair",)
            )
        return orig(self, current)

    return patched(Projection, "commute", commute)


REPAIRS = {"projection_past_deduplication": repair_projection_past_deduplication}


def select_spine_elided_calculation(s) -> bool:
    """Cause test for KF-SELECT-SPINE-ELIDED-CALCULATION on one incoherent Select marker: the recorded
    projection was applied directly to the skip target and simplified away Calculation node(s) whose
    tag it drops, so Select.target bypasses nodes that Select.skip_to still contains."""
    from lsst.daf.relation import Calculation, UnaryOperationRelation

    if s.projection is None or s.has_sort:
        return False
    node = s.target
    for present, recorded in ((s.has_slice, s.slice), (s.deduplication is not None, s.deduplication)):
        if present:
            if not (isinstance(node, UnaryOperationRelation) and node.operation == recorded):
                return False
            node = node.target
    if isinstance(node, UnaryOperationRelation) and node.operation == s.projection:
        node = node.target
    elif s.projection.columns != node.columns:
        return False
    k, stripped = s.skip_to, 0
    while (
        isinstance(k, UnaryOperationRelation)
        and isinstance(k.operation, Calculation)
        and k.operation.tag not in s.projection.columns
    ):
        k = k.target
        stripped += 1
    return stripped > 0 and k is node


@matcher("select_spine_elided_calculation")
def _m_select_spine(pid, v, context):
    if v.get("kind") != "select-incoherent":
        return False
    rel = _rel_of(context)
    if rel is None:
        return False
    from lsst.daf.relation import sql

    from . import walk
    from .checks.c17 import select_incoherence

    bad = [n for n in walk.walk(rel) if isinstance(n, sql.Select) and select_incoherence(n)]
    return bool(bad) and all(select_spine_elided_calculation(n) for n in bad)


def _changes_on_process(t) -> bool:
    """Structural: would Processor.process hand back a *different object* for this subtree?
    (an unprocessed transfer below, or a chain with a statically empty branch that gets pruned)"""
    from lsst.daf.relation import BinaryOperationRelation, Chain, MarkerRelation, Transfer, UnaryOperationRelation

    if t.payload is not None:
        return False
    match t:
        case Transfer():
            return True
        case MarkerRelation():
            return _changes_on_process(t.target)
        case UnaryOperationRelation():
            return _changes_on_process(t.target)
        case BinaryOperationRelation():
            if isinstance(t.operation, Chain) and (t.lhs.max_rows == 0 or t.rhs.max_rows == 0):
                return True
            return _changes_on_process(t.lhs) or _changes_on_process(t.rhs)
    return False


def sql_materialization_over_changing_upstream(rel) -> bool:
    """Cause test for KF-PROCESSOR-SQL-MATERIALIZATION: some payload-less Materialization living in a SQL
    engine whose upstream subtree is rebuilt by processing.  The Processor then re-creates the
    materialization through sql.Engine.materialize, which returns a Select *wrapper*; the payload is
    attached to (or read from) that wrapper instead of the Materialization node."""
    from lsst.daf.relation import Materialization, sql

    from . import walk

    for n in walk.walk(rel):
        if isinstance(n, Materialization) and isinstance(n.engine, sql.Engine) and n.payload is None:
            if _changes_on_process(n.target):
                return True
    return False


@matcher("processor_sql_materialization")
def _m_proc_sql_mat(pid, v, context):
    rel = _rel_of(context)
    if rel is None:
        return False
    pre = getattr(context, "pre_state_flag", None)
    flagged = pre if pre is not None else sql_materialization_over_changing_upstream(rel)
    if not flagged:
        return False
    kind, detail = v.get("kind"), v.get("detail", "")
    if kind in ("processed-tree-not-executable", "process-raised", "executor-failed") and "Cannot persist materialization" in detail:
        return True
    if kind in (
        "materialization-recomputed",
        "hook-repeated",
        "upstream-evaluated-twice",
        "materialization-hook-twice",
        "materialization-without-payload",
    ):
        return True
    return False


def buried_sorted_union_with_empty_branch(rel) -> bool:
    """Cause test for KF-PROCESSOR-REBUILD-ORDER-LOSS: a compound Select (UNION) that carries a sort
    without a slice, is *nested below* other nodes (the sort is already buried in a subquery - accepted at
    construction because a calculation/selection on a UNION nests it), and whose chain has a statically
    empty branch.  Processing prunes that branch, the rebuilt select is no longer compound, the re-applied
    calculation/selection merges next to the sort, and the construction-time order-loss guard fires."""
    from lsst.daf.relation import BinaryOperationRelation, Chain, sql

    from . import walk

    for n in walk.walk(rel):
        if n is rel or not isinstance(n, sql.Select):
            continue
        if n.is_compound and n.has_sort and not n.has_slice:
            c = n.skip_to
            if isinstance(c, BinaryOperationRelation) and isinstance(c.operation, Chain):
                if c.lhs.max_rows == 0 or c.rhs.max_rows == 0:
                    return True
    return False


@matcher("processor_rebuild_order_loss")
def _m_proc_order_loss(pid, v, context):
    rel = _rel_of(context)
    if rel is None or v.get("kind") != "process-raised":
        return False
    if "RelationalAlgebraError" not in v.get("detail", "") or "will not preserve row order" not in v.get("detail", ""):
        return False
    return buried_sorted_union_with_empty_branch(rel)


def distinct_under_hidden_sort_key(rel) -> bool:
    """Some SQL Select with DISTINCT and an ORDER BY that uses a column the select does not expose
    (SELECT DISTINCT a, b ... ORDER BY c): the row order of such a statement is not defined."""
    from lsst.daf.relation import sql

    from . import walk

    for n in walk.walk(rel):
        if isinstance(n, sql.Select) and n.has_deduplication and n.has_sort:
            if not n.sort.columns_required <= n.columns:
                return True
    return False


@matcher("backtracked_dedup_under_hidden_sort_key")
def _m_dedup_hidden_sort(pid, v, context):
    rel = _rel_of(context)
    if rel is None or v.get("kind") not in ("rows", "rows-vs-plain", "rows-on-processed-base") or not v.get("order_only"):
        return False
    parent = getattr(context, "parent_rel", None)
    # cause: the call created the DISTINCT-under-hidden-sort-key statement (it was not there before)
    return distinct_under_hidden_sort_key(rel) and (parent is None or not distinct_under_hidden_sort_key(parent))
