"""Reference interpretation of *library trees* (as opposed to programs).

``eval_tree`` walks a real relation tree through its public attributes (operation, target,
lhs, rhs) and evaluates it with the reference semantics, ignoring every static bound and
shortcut.  It gives meaning to trees produced by rewrites the caller never asked for
(sub-nodes of results, conform() output, commutator insertions).
"""

from __future__ import annotations

from lsst.daf.relation import (
    BinaryOperationRelation,
    Chain,
    Join,
    LeafRelation,
    MarkerRelation,
    UnaryOperationRelation,
)

from . import libmap
from .refmodel import RefVal, Scenario, ref_apply


_LEAF_KEY = [lambda leaf: leaf.name]


def eval_tree(rel, scen: Scenario, list_semantics=True, leaf_key=None) -> RefVal:
    """Evaluate a library tree.  With ``list_semantics`` every engine is treated as order-preserving
    (the value's ``rows`` is then *a* legal result; compare as multiset unless you know better)."""
    kinds = dict(scen.engine_kinds)
    if list_semantics:
        kinds = {k: "it" for k in kinds}
    s2 = Scenario(kinds, scen.leaf_val)
    _LEAF_KEY.append(leaf_key or (lambda leaf: leaf.name))  # two leaves may share a name; callers resolve by payload
    try:
        return _eval(rel, s2)
    finally:
        _LEAF_KEY.pop()


def _eval(rel, scen) -> RefVal:
    match rel:
        case LeafRelation():
            return scen.leaf_val(_LEAF_KEY[-1](rel))
        case UnaryOperationRelation(operation=op, target=t):
            v = _eval(t, scen)
            return ref_apply(v, libmap.op_from_lib(op), scen, True)
        case BinaryOperationRelation(operation=Chain(), lhs=lhs, rhs=rhs):
            a, b = _eval(lhs, scen), _eval(rhs, scen)
            return RefVal(rows=a.rows + b.rows, cols=a.cols, det=a.det and b.det, amb=a.amb or b.amb, eng=a.eng)
        case BinaryOperationRelation(operation=Join() as j, lhs=lhs, rhs=rhs):
            a, b = _eval(lhs, scen), _eval(rhs, scen)
            pred = libmap.expr_from_lib(j.predicate)
            if pred == ("plit", True):
                pred = None
            common = tuple(sorted(t.qualified_name for t in j.common_columns))
            key = ("__node__", id(rhs))
            s3 = Scenario(scen.engine_kinds, lambda n, _k=key, _b=b, _s=scen: _b if n == _k else _s.leaf_val(n))
            return ref_apply(a, ("join", (key,), pred, False, common), s3, True)
        case MarkerRelation(target=t):
            v = _eval(t, scen)
            eng = str(rel.engine)
            return v if v.eng == eng else RefVal(rows=v.rows, cols=v.cols, det=v.det, amb=v.amb, cdet=v.cdet, eng=eng)
    raise AssertionError(f"cannot interpret {rel!r}")
