"""Tiny fork-pool helper for the enumeration checks (pairs / expressions)."""

from __future__ import annotations

import multiprocessing as mp
import os
import traceback

NWORKERS = int(os.environ.get("VERIF_WORKERS", "16"))
_FN = None


def _call(arg):
    try:
        return ("ok", _FN(arg))
    except BaseException as e:  # noqa: BLE001
        return ("err", f"{type(e).__name__}: {e}\n{traceback.format_exc()}")


def pmap(fn, items, chunksize=1):
    """Unordered parallel map; ``fn`` must be a module-level or closure function (fork)."""
    global _FN
    _FN = fn
    items = list(items)
    if not items:
        return []
    out = []
    with mp.get_context("fork").Pool(min(NWORKERS, len(items))) as pool:
        for status, val in pool.imap_unordered(_call, items, chunksize):
            if status == "err":
                raise RuntimeError("worker failed: " + val)
            out.append(val)
    return out


def chunks(seq, n):
    seq = list(seq)
    k = max(1, (len(seq) + n - 1) // n)
    return [seq[i : i + k] for i in range(0, len(seq), k)]
