"""Tiny fork-pool helper for the enumeration checks (pairs / expressions)."""

from __future__ import annotations

import multiprocessing as mp
import os
import traceback

NWORKERS = int(os.environ.get("VERIF_WORKERS", "16"))
_FN = None


def _call(arg):
    try:
        return ("ok", _FN(arg))
    except BaseException as e:  # noqa: BLE001
        return ("err", f"{type(e).__name__}: {e}\n{traceback.format_exc()}")


class Stalled(Exception):
    """No worker delivered a result within the stall horizon."""


def pmap(fn, items, chunksize=1, stall_timeout=None):
    """Unordered parallel map; ``fn`` must be a module-level or closure function (fork).

    With ``stall_timeout`` (seconds) the pool is torn down and `Stalled` raised if no task completes within
    that time - library calls stuck in uninterruptible C code cannot be stopped from inside a worker."""
    global _FN
    _FN = fn
    items = list(items)
    if not items:
        return []
    out = []
    with mp.get_context("fork").Pool(min(NWORKERS, len(items))) as pool:
        it = pool.imap_unordered(_call, items, chunksize)
        while True:
            try:
                status, val = it.next(stall_timeout) if stall_timeout else next(it)
            except StopIteration:
                break
            except mp.TimeoutError:
                pool.terminate()
                raise Stalled(f"no task finished within {stall_timeout} s ({len(out)} of {len(items)} done)") from None
            if status == "err":
                raise RuntimeError("worker failed: " + val)
            out.append(val)
    return out


def chunks(seq, n):
    seq = list(seq)
    k = max(1, (len(seq) + n - 1) // n)
    return [seq[i : i + k] for i in range(0, len(seq), k)]
