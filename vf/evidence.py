"""Evidence and replay-artefact writers."""

from __future__ import annotations

import hashlib
import json
import os

from . import alphabet as A

ROOT = os.path.dirname(os.path.dirname(os.path.abspath(__file__)))
EVIDENCE_DIR = os.path.join(ROOT, "evidence")
REPLAY_DIR = os.path.join(ROOT, "replays")


def _scratch():
    """Mutation-testing runs (VERIF_NO_EVIDENCE=1) write evidence/replays under .scratch instead."""
    return os.environ.get("VERIF_NO_EVIDENCE") == "1"


def write_evidence(pid, tier, seed, coverage, wall_s, violations, assumptions, level="model_checking", extra=None):
    global EVIDENCE_DIR
    if _scratch():
        EVIDENCE_DIR = os.path.join(ROOT, ".scratch", "evidence")
    os.makedirs(EVIDENCE_DIR, exist_ok=True)
    doc = {
        "property_id": pid,
        "tier": tier,
        "seed": int(seed),
        "level": level,
        "coverage": A.to_jsonable(coverage),
        "assumptions": list(assumptions),
        "wall_s": round(float(wall_s), 3),
        "violations": int(violations),
    }
    if extra:
        doc.update(A.to_jsonable(extra))
    path = os.path.join(EVIDENCE_DIR, f"{pid}.json")
    tmp = path + ".tmp"
    with open(tmp, "w") as f:
        json.dump(doc, f, indent=1, sort_keys=True, default=str)
        f.write("\n")
    os.replace(tmp, path)
    return path


def write_replay(pid, tier, violation):
    d = os.path.join(ROOT, ".scratch", "replays", pid) if _scratch() else os.path.join(REPLAY_DIR, pid)
    os.makedirs(d, exist_ok=True)
    doc = {"property": pid, "tier": tier}
    doc.update(A.to_jsonable(violation))
    blob = json.dumps(doc, sort_keys=True, default=str)
    h = hashlib.blake2b(blob.encode(), digest_size=6).hexdigest()
    path = os.path.join(d, f"{h}.json")
    with open(path, "w") as f:
        json.dump(doc, f, indent=1, sort_keys=True, default=str)
        f.write("\n")
    return path
