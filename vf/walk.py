"""Tree walker: canonical structural key, fingerprints, structural invariants."""

from __future__ import annotations

import hashlib

from lsst.daf.relation import (
    BinaryOperationRelation,
    Calculation,
    Chain,
    Deduplication,
    Identity,
    Join,
    LeafRelation,
    MarkerRelation,
    Materialization,
    PartialJoin,
    Projection,
    Selection,
    Slice,
    Sort,
    Transfer,
    UnaryOperationRelation,
    iteration,
    sql,
)
from lsst.daf.relation._binary_operation import IgnoreOne


def names(tagset):
    return tuple(sorted(t.qualified_name for t in tagset))


def opkey(op):
    match op:
        case Calculation(tag=t, expression=e):
            return ("calc", t.qualified_name, repr(e))
        case Projection(columns=c):
            return ("proj", names(c))
        case Selection(predicate=p):
            return ("sel", repr(p))
        case Deduplication():
            return ("dedup",)
        case Sort(terms=terms):
            return ("sort", tuple((repr(t.expression), t.ascending) for t in terms))
        case Slice(start=s, stop=e):
            return ("slice", s, e)
        case Chain():
            return ("chain",)
        case Join(predicate=p, min_columns=mn, max_columns=mx):
            return ("join", repr(p), names(mn), None if mx is None else names(mx))
        case Identity():
            return ("identity",)
        case PartialJoin():
            return ("partialjoin", opkey(op.binary), key(op.fixed), op.fixed_is_lhs)
        case IgnoreOne():
            return ("ignoreone", op.ignore_lhs)
    return ("other", repr(op))


def key(rel):
    """Canonical structural key of a relation tree (nested tuples of str/int/bool/None)."""
    match rel:
        case LeafRelation():
            return ("L", rel.name, str(rel.engine), names(rel.columns), rel.min_rows, rel.max_rows)
        case UnaryOperationRelation():
            return ("U", opkey(rel.operation), key(rel.target))
        case BinaryOperationRelation():
            return ("B", opkey(rel.operation), key(rel.lhs), key(rel.rhs))
        case sql.Select():
            return (
                "S",
                opkey(rel.sort),
                None if rel.projection is None else opkey(rel.projection),
                rel.deduplication is not None,
                opkey(rel.slice),
                rel.is_compound,
                key(rel.target),
                key(rel.skip_to) if rel.skip_to is not rel.target else "=",
            )
        case Transfer():
            return ("T", str(rel.destination), rel.payload is not None, key(rel.target))
        case Materialization():
            return ("M", rel.name, rel.payload is not None, key(rel.target))
        case MarkerRelation():
            return ("K", type(rel).__name__, rel.payload is not None, key(rel.target))
    return ("?", repr(rel))


def digest(obj) -> bytes:
    return hashlib.blake2b(repr(obj).encode(), digest_size=8).digest()


def children(rel):
    match rel:
        case UnaryOperationRelation():
            return (rel.target,)
        case BinaryOperationRelation():
            return (rel.lhs, rel.rhs)
        case sql.Select():
            return (rel.target,) if rel.skip_to is rel.target else (rel.target, rel.skip_to)
        case MarkerRelation():
            return (rel.target,)
    return ()


def walk(rel, seen=None):
    """Yield every node reachable via target/lhs/rhs/skip_to (each object once)."""
    if seen is None:
        seen = set()
    if id(rel) in seen:
        return
    seen.add(id(rel))
    yield rel
    for c in children(rel):
        yield from walk(c, seen)


def spine_walk(rel):
    """Yield nodes via target/lhs/rhs only (no skip_to), with repeats."""
    yield rel
    match rel:
        case UnaryOperationRelation():
            yield from spine_walk(rel.target)
        case BinaryOperationRelation():
            yield from spine_walk(rel.lhs)
            yield from spine_walk(rel.rhs)
        case MarkerRelation():
            yield from spine_walk(rel.target)


def count_nodes(rel, cls):
    return sum(1 for n in spine_walk(rel) if isinstance(n, cls))


def rewrites_fired(parent, op, rel):
    """Coarse classification of which rewrite/shortcut a transition exercised (coverage counters)."""
    out = []
    if rel is parent:
        out.append("noop-returns-self")
    return out


def expressions_of(op):
    match op:
        case Calculation(expression=e):
            return [e]
        case Selection(predicate=p):
            return [p]
        case Sort(terms=terms):
            return [t.expression for t in terms]
        case Join(predicate=p):
            return [p]
    return []


def wellformed_problems(rel):
    """Node-local structural invariants of C14 over the full walk.  Returns list of strings."""
    problems = []
    for n in walk(rel):
        match n:
            case UnaryOperationRelation(operation=op, target=t):
                if isinstance(op, (Identity, PartialJoin)):
                    problems.append(f"placeholder operation {type(op).__name__} appears as a node")
                if n.engine != t.engine:
                    problems.append(f"unary node engine {n.engine} != target engine {t.engine}")
                for e in expressions_of(op):
                    if not e.is_supported_by(n.engine):
                        problems.append(f"expression {e} not supported by engine {n.engine}")
                if not op.columns_required <= t.columns:
                    problems.append(f"operation {op} requires columns missing from its target")
            case BinaryOperationRelation(operation=op, lhs=lhs, rhs=rhs):
                if isinstance(op, IgnoreOne):
                    problems.append("placeholder operation IgnoreOne appears as a node")
                if lhs.engine != rhs.engine:
                    problems.append(f"binary operands in different engines {lhs.engine} / {rhs.engine}")
                if n.engine != lhs.engine:
                    problems.append("binary node engine differs from operands")
                if isinstance(op, Join):
                    if op.min_columns != op.max_columns:
                        problems.append("join node with unresolved common columns")
                    else:
                        cc = op.min_columns
                        if not (cc <= lhs.columns and cc <= rhs.columns):
                            problems.append("join common columns not in both operands")
                        if not all(t.is_key for t in cc):
                            problems.append("join common columns contain a non-key column")
                    if not op.predicate.is_supported_by(n.engine):
                        problems.append("join predicate not supported by engine")
                    if not op.predicate.columns_required <= (lhs.columns | rhs.columns):
                        problems.append("join predicate requires missing columns")
                if isinstance(op, Chain) and lhs.columns != rhs.columns:
                    problems.append("chain operands with different columns")
            case Transfer(target=t, destination=d):
                if t.engine == d:
                    problems.append("transfer connects an engine to itself")
                if n.engine != d:
                    problems.append("transfer engine is not its destination")
            case MarkerRelation(target=t):
                if n.engine != t.engine:
                    problems.append(f"{type(n).__name__} marker engine differs from target engine")
    return problems
