"""Stateless, preemption-bounded exploration of real thread interleavings (CHESS style).

Real ``threading.Thread``s run the harness bodies under a cooperative scheduler: every thread
installs ``sys.settrace``; frames whose code lives under the library directory get
``f_trace_opcodes`` so that every bytecode instruction is a scheduling point at which the running
thread consults the choice sequence and, if told to, hands a semaphore baton to another thread.
Choice points: *preempt* (running thread still enabled; switching away costs one preemption) and
*free* (start of the execution / a thread finished; any continuation costs nothing).
"""

from __future__ import annotations

import os
import sys
import threading

import lsst.daf.relation as _pkg

LIB_ROOT = os.path.dirname(os.path.realpath(_pkg.__file__))


class Divergence(Exception):
    pass


class Deadlock(Exception):
    pass


_CURRENT: "Execution | None" = None


class CoopLock:
    """Stand-in for ``threading.Lock`` objects the library creates while a harness is being built.

    A real lock would hang the cooperative scheduler (the thread holding the baton would block on a lock
    whose owner is waiting for the baton).  Acquiring a held CoopLock hands the baton to another thread
    instead (a forced switch, not a preemption); if nobody can run it is a deadlock."""

    def __init__(self):
        self.owner = None

    def acquire(self, blocking=True, timeout=-1):
        ex = _CURRENT
        me = threading.get_ident()
        while self.owner is not None and self.owner != me:
            if not blocking:
                return False
            if ex is None or not ex.yield_blocked(self.owner):
                raise Deadlock("thread blocks on a lock whose owner cannot run")
        self.owner = me
        return True

    def release(self):
        self.owner = None

    def locked(self):
        return self.owner is not None

    __enter__ = acquire

    def __exit__(self, *a):
        self.release()


_REAL_LOCK_TYPES = (type(threading.Lock()), type(threading.RLock()))


def coopify(*objects):
    """Replace real lock objects held as attributes of the given objects (e.g. engines whose dataclass
    field default_factory captured the real ``threading.Lock`` at import time) and as globals of the
    library's modules by CoopLocks."""
    import sys as _sys

    for obj in objects:
        for name, val in list(vars(obj).items()):
            if isinstance(val, _REAL_LOCK_TYPES):
                setattr(obj, name, CoopLock())
    for modname, mod in list(_sys.modules.items()):
        if modname.startswith("lsst.daf.relation") and mod is not None:
            for name, val in list(vars(mod).items()):
                if isinstance(val, _REAL_LOCK_TYPES):
                    setattr(mod, name, CoopLock())


class patched_locks:
    """Context manager: locks created inside (by the library, while engines are constructed) are CoopLocks."""

    def __enter__(self):
        self._orig = (threading.Lock, threading.RLock)
        threading.Lock = CoopLock
        threading.RLock = CoopLock
        return self

    def __exit__(self, *a):
        threading.Lock, threading.RLock = self._orig


class Execution:
    def __init__(self, bodies, prefix):
        self.bodies = bodies
        self.prefix = list(prefix)
        self.pos = 0
        self.points = []  # (kind, n_enabled, choice)
        self.sems = [threading.Semaphore(0) for _ in bodies]
        self.alive = [True] * len(bodies)
        self.tl = threading.local()
        self.done = threading.Event()
        self.err = None
        self.opcode_events = 0
        self.idents = {}

    # -- tracing
    def _tracer(self, frame, event, arg):
        if frame.f_code.co_filename.startswith(LIB_ROOT):
            frame.f_trace_opcodes = True
            frame.f_trace_lines = False
            return self._local
        return None

    def _local(self, frame, event, arg):
        if event == "opcode":
            self.opcode_events += 1
            self._preempt_point()
        return self._local

    def _choose(self, kind, n):
        if self.pos < len(self.prefix):
            ch = self.prefix[self.pos]
            if ch >= n:
                self.err = Divergence(f"choice {ch} out of range {n} at point {self.pos}")
                ch = 0
        else:
            ch = 0
        self.pos += 1
        self.points.append((kind, n, ch))
        return ch

    def _preempt_point(self):
        me = self.tl.i
        others = [i for i in range(len(self.bodies)) if i != me and self.alive[i]]
        if not others:
            return
        ch = self._choose("preempt", 1 + len(others))
        if ch != 0:
            nxt = others[ch - 1]
            self.sems[nxt].release()
            self.sems[me].acquire()

    def yield_blocked(self, owner_ident):
        """Called by a thread blocked on a CoopLock: hand the baton to the lock's owner - the only thread
        whose progress can unblock the caller (a forced switch: no choice point, no preemption cost).
        False if the owner is not a live thread of this execution (deadlock)."""
        me = self.tl.i
        owner = self.idents.get(owner_ident)
        if owner is None or owner == me or not self.alive[owner]:
            return False
        self.sems[owner].release()
        self.sems[me].acquire()
        return True

    def _thread(self, i):
        self.tl.i = i
        self.idents[threading.get_ident()] = i
        self.sems[i].acquire()
        sys.settrace(self._tracer)
        try:
            self.bodies[i]()
        except BaseException as e:  # noqa: BLE001
            self.err = e
        finally:
            sys.settrace(None)
            self.alive[i] = False
            rest = [j for j in range(len(self.bodies)) if self.alive[j]]
            if rest:
                ch = self._choose("free", len(rest)) if len(rest) > 1 else 0
                self.sems[rest[ch]].release()
            else:
                self.done.set()

    def run(self):
        global _CURRENT
        _CURRENT = self
        threads = [threading.Thread(target=self._thread, args=(i,), daemon=True) for i in range(len(self.bodies))]
        for t in threads:
            t.start()
        first = self._choose("free", len(self.bodies)) if len(self.bodies) > 1 else 0
        self.sems[first].release()
        if not self.done.wait(20):
            raise RuntimeError("deadlock or hang: no thread finished within the horizon")
        for t in threads:
            t.join()
        if self.err is not None:
            raise self.err
        return self.points


def explore(make_harness, bound, check, max_executions=None, start=None, self_check=True):
    """Enumerate every schedule with at most ``bound`` preemptions.

    ``make_harness()`` -> (bodies, collect) builds fresh objects for one execution;
    ``check(observation)`` -> list of problems.  Returns a summary dict.
    """
    # warm-up (CPython 3.12 delivers no opcode events on the first traced execution of a code object)
    for _ in range(2):
        bodies, collect = make_harness()
        Execution(bodies, []).run()
    base = []
    for _ in range(2):
        bodies, collect = make_harness()
        ex = Execution(bodies, [])
        pts = ex.run()
        base.append((len(pts), ex.opcode_events, collect()))
    if base[0][:2] != base[1][:2] or base[0][1] == 0:
        raise RuntimeError(f"schedule explorer self-check failed: unstable or empty scheduling points {base}")
    executions = 0
    problems = []
    outcomes = set()
    max_points = 0
    stack = [((), 0)] if start is None else list(start)
    capped = False
    by_cost = {}
    while stack:
        prefix, used = stack.pop()
        bodies, collect = make_harness()
        ex = Execution(bodies, prefix)
        pts = ex.run()
        executions += 1
        by_cost[used] = by_cost.get(used, 0) + 1
        max_points = max(max_points, len(pts))
        obs = collect()
        outcomes.add(repr(obs.get("outcome")))
        for p in check(obs):
            problems.append({"schedule": [c for _, _, c in pts], "problem": p, "observation": obs})
        cost = 0
        for i, (kind, n, ch) in enumerate(pts):
            if i >= len(prefix):
                step = 1 if kind == "preempt" else 0
                if used_at(pts, i) + step <= bound:
                    base_choices = [c for _, _, c in pts[:i]]
                    for alt in range(1, n):
                        stack.append((tuple(base_choices + [alt]), used_at(pts, i) + step))
        if max_executions and executions >= max_executions:
            capped = bool(stack)
            break
    return {
        "executions": executions,
        "by_preemptions": by_cost,
        "problems": problems,
        "distinct_outcomes": len(outcomes),
        "max_points": max_points,
        "opcode_events_default_schedule": base[0][1],
        "capped": capped,
    }


def used_at(pts, i):
    """Preemptions spent by the choices before point i."""
    return sum(1 for kind, n, ch in pts[:i] if kind == "preempt" and ch != 0)


def replay(make_harness, schedule):
    bodies, collect = make_harness()
    ex = Execution(bodies, schedule)
    ex.run()
    return collect()


def root_children(make_harness, bound):
    """Run the default schedule once and return the (prefix, preemptions) roots of all sibling subtrees,
    so that the schedule space can be partitioned across processes.  The default schedule itself is
    represented by the root ((), 0) with exploration of its children suppressed - callers explore
    ``[((), 0)]`` restricted to depth 0 by passing it with ``only_self``; simpler: the default schedule
    is re-run by whoever gets the sentinel ("default",)."""
    for _ in range(2):
        bodies, collect = make_harness()
        Execution(bodies, []).run()
    bodies, collect = make_harness()
    pts = Execution(bodies, []).run()
    kids = []
    for i, (kind, n, ch) in enumerate(pts):
        step = 1 if kind == "preempt" else 0
        if used_at(pts, i) + step <= bound:
            base_choices = [c for _, _, c in pts[:i]]
            for alt in range(1, n):
                kids.append((tuple(base_choices + [alt]), used_at(pts, i) + step))
    return kids
