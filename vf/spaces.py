"""Worlds (engines + leaves) and operation alphabets shared by the program-exploration checks."""

from __future__ import annotations

from .alphabet import L, R
from .realize import LeafSpec, World

# ------------------------------------------------------------------ leaf contents
# rich: duplicate full rows (0,2), rows equal on some keys and different on others, unsorted on
# every column, ties on every single sort key; n = 10*a (non-key column determined by key a).
RICH = ((2, 1, 4, 20), (1, 2, 3, 10), (2, 1, 4, 20), (1, 1, 1, 10), (3, 2, 0, 30), (2, 2, 4, 20))
SIB = ((1, 1, 9, 10), (5, 1, 9, 50))
ONE = ((2, 1, 4, 20),)
ABCN = ("a", "b", "c", "n")


def it_world():
    e = "e1"
    leaves = (
        LeafSpec("L", e, ABCN, RICH),
        LeafSpec("Lloose", e, ABCN, RICH, min_rows=2, max_rows=9),
        LeafSpec("Lunb", e, ABCN, RICH, min_rows=0, max_rows=None),
        LeafSpec("L1", e, ABCN, ONE),
        LeafSpec("E0", e, ABCN, (), min_rows=0, max_rows=0),
        LeafSpec("Eloose", e, ABCN, (), min_rows=0, max_rows=3),
        LeafSpec("L2", e, ABCN, SIB),
        LeafSpec("LC", e, ABCN, RICH, special="chained"),
        LeafSpec("ELtwin", e, ABCN, SIB, min_rows=0, max_rows=3, leaf_name="Eloose"),  # equal to Eloose, but has rows
        LeafSpec("D0", e, ABCN, (), special="doomed"),
        LeafSpec("I0", e, (), ((),), special="identity"),
    )
    return World(engines=(("e1", "it"), ("e2", "it")), leaves=leaves)


# ------------------------------------------------------------------ expressions
NEG_A = ("neg", R("a"))
A_PLUS_B = ("add", R("a"), R("b"))
X_TIMES_2 = ("mul", R("x"), L(2))
A_MINUS_C = ("sub", R("a"), R("c"))
P_A_GT_1 = ("gt", R("a"), L(1))
P_B_EQ_1 = ("eq", R("b"), L(1))
P_A_RANGE = ("in_range", R("a"), (0, 4, 2))
P_A_SEQ = ("in_seq", R("a"), (R("b"), L(1)))
P_NOT_OR = ("not", ("or", P_A_GT_1, P_B_EQ_1))
P_TRUE = ("plit", True)
P_FALSE = ("plit", False)
P_TRUE_AND = ("and", P_TRUE, P_A_GT_1)
P_X_LT_0 = ("lt", R("x"), L(0))
P_C_GE_3 = ("ge", R("c"), L(3))


def S(*terms):
    return ("sort", tuple(terms))


ASC, DESC = True, False

IT_CALC = (("calc", "x", NEG_A), ("calc", "x", A_PLUS_B), ("calc", "y", X_TIMES_2), ("calc", "y", A_MINUS_C))
IT_PROJ = (
    ("proj", ("a", "b")),
    ("proj", ("a",)),
    ("proj", ("b", "c")),
    ("proj", ()),
    ("proj", ("a", "n")),
    ("proj", ("n",)),
    ("proj_all",),
    ("proj", ABCN),
)
IT_SEL = tuple(
    ("sel", p)
    for p in (P_A_GT_1, P_B_EQ_1, P_A_RANGE, P_A_SEQ, P_NOT_OR, P_TRUE, P_FALSE, P_TRUE_AND, P_X_LT_0)
)
IT_SORT = (
    S((R("a"), ASC)),
    S((R("a"), DESC)),
    S((R("b"), ASC), (R("a"), DESC)),
    S((R("b"), DESC), (R("a"), ASC)),
    S((R("a"), ASC), (R("b"), ASC), (R("c"), ASC)),
    S((A_PLUS_B, DESC)),
    S(),
    S((R("a"), ASC), (R("a"), ASC)),
    S((R("a"), ASC), (R("a"), DESC)),
    S((R("x"), ASC)),
)
IT_SLICE = tuple(
    ("slice", s, e)
    for s, e in ((0, 1), (1, 3), (2, None), (0, 0), (1, 1), (3, 5), (0, None), (0, 2), (6, 8), (0, 9))
)
IT_CHAIN = (
    ("chain", ("self",)),
    ("chain", ("L2",)),
    ("chain", ("E0",)),
    ("chain", ("L2", S((R("a"), DESC)))),
    ("chain", ("L2", ("slice", 1, None))),
    ("chain", ("L2", ("chain", ("E0",)))),
    ("chain", ("L2", ("proj", ("a", "b")))),
)
IT_OTHER = (("dedup",), ("mat", "m1"), ("xfer", "e2"))

# a named function that every iteration engine registers in its ``functions`` table with its own meaning:
# the node that holds it must be evaluated by ITS engine even after the tree has been transferred
EFN_A = ("efn", R("a"))
IT_EFN = (("calc", "w", EFN_A), ("sel", ("gt", EFN_A, L(2))))
IT_FULL = IT_CALC + IT_PROJ + IT_SEL + IT_SORT + IT_SLICE + IT_CHAIN + IT_OTHER + IT_EFN

IT_REDUCED = (
    ("calc", "x", NEG_A),
    ("calc", "y", X_TIMES_2),
    ("proj", ("a", "b")),
    ("proj", ("b", "c")),
    ("proj", ()),
    ("proj", ("a", "n")),
    ("sel", P_A_GT_1),
    ("sel", P_A_SEQ),
    ("sel", P_FALSE),
    ("sel", P_X_LT_0),
    ("dedup",),
    S((R("a"), DESC)),
    S((R("b"), ASC), (R("a"), DESC)),
    S((R("a"), ASC), (R("a"), DESC)),
    S((A_PLUS_B, DESC)),
    ("slice", 1, 3),
    ("slice", 2, None),
    ("slice", 0, 0),
    ("slice", 3, 5),
    ("slice", 0, 9),
    ("chain", ("self",)),
    ("chain", ("L2",)),
    ("chain", ("E0",)),
    ("mat", "m1"),
    ("xfer", "e2"),
)

IT_ROOTS_ALL = ("L", "Lloose", "Lunb", "L1", "E0", "Eloose")


# ------------------------------------------------------------------ SQL world
XROWS = ((2, 1, 14), (1, 2, 13), (2, 1, 12), (1, 1, 11), (3, 2, 10), (2, 1, 14))
YROWS = ((1, 1, 21), (2, 2, 22), (1, 1, 21))
KROWS = ((1, 7), (2, 8), (2, 9), (4, 1))
K2ROWS = ((1, 5), (2, 6), (2, 7))
ABC = ("a", "b", "c")


def sql_world():
    s = "s"
    leaves = (
        LeafSpec("X", s, ABC, XROWS),
        LeafSpec("Xloose", s, ABC, XROWS, min_rows=2, max_rows=9),
        LeafSpec("Xunb", s, ABC, XROWS, min_rows=0, max_rows=None),
        LeafSpec("X1", s, ABC, XROWS[:1]),
        LeafSpec("Y", s, ABC, YROWS),
        LeafSpec("K", s, ("a", "d"), KROWS),
        LeafSpec("K2", s, ("b", "d2"), K2ROWS),
        LeafSpec("Kb", s, ("a", "d"), ((1, 70), (2, 80), (3, 90))),
        LeafSpec("Etwin", s, ABC, XROWS, leaf_name="E"),  # compares equal to E (bounds and payload are not compared)
        LeafSpec("E", s, ABC, (), min_rows=0, max_rows=0),
        LeafSpec("Eloose", s, ABC, (), min_rows=0, max_rows=3),
        LeafSpec("ELtwin", s, ABC, YROWS[:2], min_rows=0, max_rows=3, leaf_name="Eloose"),  # equal to Eloose, but has rows
        LeafSpec("D0", s, ABC, (), special="doomed"),
        LeafSpec("I0", s, (), ((),), special="identity"),
    )
    return World(engines=(("s", "sql"),), leaves=leaves)


P_D_GT_A = ("gt", R("d"), R("a"))
P_C_GE_13 = ("ge", R("c"), L(13))

SQL_CALC = (("calc", "x", NEG_A), ("calc", "x", A_PLUS_B))
SQL_PROJ = (("proj", ("a", "b")), ("proj", ("a",)), ("proj", ("b", "c")), ("proj", ()), ("proj_all",))
SQL_SEL = tuple(("sel", p) for p in (P_A_GT_1, P_B_EQ_1, P_FALSE, P_C_GE_13, P_TRUE, P_A_RANGE))
SQL_SORT = (
    S((R("a"), ASC)),
    S((R("b"), DESC), (R("a"), ASC)),
    S((R("c"), ASC), (R("a"), ASC), (R("b"), ASC)),
    S((R("c"), DESC)),
    S((R("x"), ASC), (R("c"), DESC)),
    S(),
)
SQL_SLICE = tuple(("slice", s, e) for s, e in ((0, 1), (1, 3), (2, None), (0, 0), (0, None), (3, 5), (1, 2)))
SQL_CHAIN = (
    ("chain", ("self",)),
    ("chain", ("Y",)),
    ("chain", ("E",)),
    ("chain", ("Y", S((R("c"), ASC)), ("slice", 1, None))),
    ("chain", ("Y", ("proj", ("a", "b")))),
    ("chain", ("Y", ("chain", ("X",)))),
)
SQL_JOIN = (
    ("join", ("K",), None, False),
    ("join", ("K",), P_D_GT_A, False),
    ("join", ("K",), None, True),
    ("join", ("K2",), None, False),
    ("join", ("Y", ("proj", ("a", "b"))), None, False),
    ("join", ("Y", ("proj", ("a", "b"))), None, True),
    ("join", ("I0",), None, False),
    ("join", ("Y", ("chain", ("Y",)), ("proj", ("a",))), None, False),
    ("join", ("K", ("dedup",)), None, False),
    ("join", ("K", S((R("d"), ASC)), ("slice", 0, 2)), None, False),
    ("join", ("K",), ("or", P_D_GT_A, P_FALSE), False),
    ("join", ("K",), ("or", ("only", "iteration", P_A_GT_1), P_TRUE), False),
    ("join", ("K",), None, False, ("a",)),
    ("join", ("self", ("sel", P_A_GT_1), ("calc", "y", A_MINUS_C)), None, False),
    ("join", ("K", ("proj", ("d",))), ("gt", R("d"), L(100)), False),
    ("join", ("K", ("proj", ("d",))), None, True),
    ("join", ("self",), None, False),
    ("join", ("Kb", ("proj", ("a",))), None, False),
    ("join", ("Kb", ("proj", ("a",))), None, True),
)
SQL_OTHER = (("dedup",), ("mat", "m1"))
SQL_FULL = SQL_CALC + SQL_PROJ + SQL_SEL + SQL_SORT + SQL_SLICE + SQL_CHAIN + SQL_JOIN + SQL_OTHER

SQL_REDUCED = (
    ("calc", "x", NEG_A),
    ("proj", ("a", "b")),
    ("proj", ("b", "c")),
    ("proj", ()),
    ("sel", P_A_GT_1),
    ("sel", P_FALSE),
    ("dedup",),
    S((R("b"), DESC), (R("a"), ASC)),
    S((R("c"), ASC), (R("a"), ASC), (R("b"), ASC)),
    S((R("c"), DESC)),
    ("slice", 1, 3),
    ("slice", 2, None),
    ("slice", 0, 0),
    ("chain", ("self",)),
    ("chain", ("Y",)),
    ("join", ("K",), None, False),
    ("join", ("Y", ("proj", ("a", "b"))), None, False),
    ("mat", "m1"),
)
SQL_ROOTS_ALL = ("X", "Xloose", "Xunb", "X1", "E", "Eloose")

# tiny alphabet for deep sort/slice/dedup/projection interplay (depth 5-6)
SQL_MINI = (
    ("dedup",),
    ("proj", ("a", "b")),
    ("proj", ("b", "c")),
    S((R("c"), ASC), (R("a"), ASC), (R("b"), ASC)),
    S((R("b"), DESC), (R("a"), ASC)),
    S((R("a"), ASC), (R("b"), ASC)),
    ("slice", 0, 4),
    ("slice", 1, 3),
    ("slice", 1, 2),
)


# ------------------------------------------------------------------ wider operand pool (C08)
SQL_POOL_EXTRA = (
    # explicitly requested common columns that include a NON-key column both operands have (after a join to K)
    ("join", ("Kb",), None, False, ("d",)),
    ("join", ("Kb",), None, True, ("a", "d")),
    ("chain", ("X", ("dedup",))),
    ("chain", ("Y", S((R("c"), DESC)), ("slice", 0, 2))),
    ("chain", ("Y", ("chain", ("Y",)), ("dedup",))),
    ("chain", ("X", ("sel", P_A_GT_1), ("calc", "x", NEG_A), ("proj", ABC))),
    ("chain", ("Y", ("join", ("K",), None, False), ("proj", ABC))),
    ("join", ("K", ("chain", ("K",))), None, False),
    ("join", ("K", ("chain", ("K",))), None, True),
    ("join", ("K2", ("join", ("K",), None, False)), None, False),
    ("join", ("K", ("sel", ("gt", R("d"), L(7)))), None, False),
    ("join", ("K", ("calc", "y", ("neg", R("d")))), None, False),
    ("join", ("K", ("proj", ("a",)), ("dedup",)), None, True),
    ("join", ("K2", ("proj", ())), None, False),
    ("join", ("D0",), None, False),
    ("join", ("K2",), ("gt", R("d2"), R("b")), True),
    # the BinaryOperation.apply(lhs, rhs) route on a caller-built Join (round 9: every join had gone through
    # Relation.join or PartialJoin.apply, whose validation is a different code path)
    ("join", ("K",), None, False, None, "direct"),
    ("join", ("K",), P_D_GT_A, True, ("a",), "direct"),
    ("join", ("Y", ("proj", ("a", "b"))), None, False, ("a",), "direct"),
    # unresolved explicit requests (min_columns != max_columns): the join itself intersects and checks
    ("join", ("K",), None, False, ("mm", ("a",), ("a", "b"))),
    ("join", ("K",), P_D_GT_A, True, ("mm", (), ("b",))),
    ("join", ("K2",), None, False, ("mm", ("b",), None), "direct"),
)
SQL_WIDE = SQL_FULL + SQL_POOL_EXTRA


# ------------------------------------------------------------------ sort/slice-heavy SQL alphabet (C11)
SQL_ORDER = (
    S((R("c"), ASC), (R("a"), ASC), (R("b"), ASC)),
    S((R("c"), DESC)),
    S((R("b"), DESC), (R("a"), ASC)),
    S((R("a"), ASC)),
    S((R("b"), ASC), (R("c"), DESC), (R("a"), DESC)),
    S((R("x"), ASC), (R("c"), DESC)),
    S((R("a"), ASC), (R("b"), ASC), (R("c"), ASC)),
    ("slice", 0, 1),
    ("slice", 1, 2),
    ("slice", 1, 3),
    ("slice", 2, None),
    ("slice", 0, 4),
    ("slice", 0, 0),
    ("proj", ("a", "b")),
    ("proj", ("b", "c")),
    ("proj", ("c",)),
    ("dedup",),
    ("sel", P_A_GT_1),
    ("sel", P_C_GE_13),
    ("calc", "x", NEG_A),
    ("calc", "c", NEG_A),  # re-creates a tag a projection may have hidden (possibly the sort key)
    ("proj", ("a",)),
    ("chain", ("Y",)),
    ("chain", ("self",)),
    ("join", ("K",), None, False),
    ("join", ("K",), None, True),
    ("chain", ("Y", S((R("c"), ASC)))),
    ("chain", ("Y", S((R("c"), ASC))), True),
    ("join", ("K", S((R("d"), ASC))), None, False),
    ("join", ("K", S((R("d"), ASC))), None, True),
    ("chain", ("Y", S((R("c"), ASC)), ("slice", 0, 2))),
    ("mat", "m1"),
)
SQL_ORDER_SMALL = (
    S((R("c"), ASC), (R("a"), ASC), (R("b"), ASC)),
    S((R("c"), DESC)),
    S((R("b"), DESC), (R("a"), ASC)),
    ("slice", 1, 3),
    ("slice", 2, None),
    ("slice", 0, 4),
    ("proj", ("a", "b")),
    ("proj", ("b", "c")),
    ("dedup",),
    ("sel", P_A_GT_1),
    ("calc", "x", NEG_A),
    ("calc", "c", NEG_A),
    ("proj", ("a",)),
    ("chain", ("Y",)),
    ("join", ("K",), None, False),
    ("mat", "m1"),
)


# ------------------------------------------------------------------ multi-engine world (C03, C14, C15, C20)
def multi_world():
    leaves = (
        LeafSpec("X", "s", ABC, XROWS),
        LeafSpec("K", "s", ("a", "d"), KROWS),
        LeafSpec("E", "s", ABC, (), min_rows=0, max_rows=0),
        LeafSpec("L", "e1", ABC, XROWS),
        LeafSpec("L2", "e1", ABC, YROWS),
        LeafSpec("K1", "e1", ("a", "d"), KROWS),
        LeafSpec("E1", "e1", ABC, (), min_rows=0, max_rows=0),
        LeafSpec("D1", "e1", ABC, (), special="doomed"),
        LeafSpec("DS", "s", ABC, (), special="doomed"),
        LeafSpec("EL", "s", ABC, (), min_rows=0, max_rows=3),
        LeafSpec("EL1", "e1", ABC, (), min_rows=0, max_rows=3),
        LeafSpec("I1", "e1", (), ((),), special="identity"),
        LeafSpec("IS", "s", (), ((),), special="identity"),
        # twins: compare (and hash) equal to L / X - name, engine and columns are all that leaf equality looks at -
        # but hold other rows.  Anything memoised on relation *values* (round 9: conform wrappers, subquery
        # payloads, row bounds, support checks) confuses a twin with its sibling
        LeafSpec("Ltwin", "e1", ABC, YROWS, leaf_name="L"),
        LeafSpec("Xtwin", "s", ABC, YROWS, leaf_name="X"),
    )
    return World(engines=(("s", "sql"), ("e1", "it"), ("e2", "it")), leaves=leaves)


# operations that bring a twin leaf next to its sibling, on either side of a transfer (C07, C15)
MULTI_TWIN = (
    ("xfer", "s"),
    ("xfer", "e1"),
    ("mat", "m1"),
    ("sel", ("gt", ("ref", "a"), ("lit", 1))),
    ("dedup",),
    ("chain", ("Ltwin",)),
    ("chain", ("Ltwin", ("xfer", "s"))),
    ("chain", ("Ltwin", ("xfer", "s")), True),
    ("chain", ("Xtwin",)),
    ("chain", ("Xtwin", ("xfer", "e1"))),
    ("chain", ("Ltwin", ("dedup",), ("mat", "mT"))),
    ("chain", ("Xtwin", ("dedup",), ("xfer", "e1"), ("mat", "mU")), True),
)


def pe(op, eng, bt=True, tr=False, req=False):
    return ("pe", op, eng, bt, tr, req)


P_ONLY_SQL = ("only", "sql", P_A_GT_1)
P_ONLY_IT = ("only", "iteration", P_A_GT_1)
C_ONLY_SQL = ("conly", "sql", NEG_A)
C_ONLY_IT = ("conly", "iteration", NEG_A)

MULTI_PLAIN = (
    ("xfer", "s"),
    ("xfer", "e1"),
    ("xfer", "e2"),
    ("mat", "m1"),
    ("calc", "x", NEG_A),
    ("proj", ("a", "b")),
    ("proj_all",),
    ("sel", P_A_GT_1),
    ("dedup",),
    S((R("c"), ASC), (R("a"), ASC), (R("b"), ASC)),
    S(),
    ("slice", 1, 3),
    ("chain", ("self",)),
    ("chain", ("L2",)),
    ("chain", ("E",)),
    ("sel", P_ONLY_SQL),
    ("sel", P_ONLY_IT),
    ("calc", "y", C_ONLY_SQL),
    ("calc", "y", C_ONLY_IT),
    S((C_ONLY_IT, ASC)),
    ("calc", "y", ("add", C_ONLY_IT, L(1))),
    ("calc", "y", ("add", C_ONLY_SQL, L(1))),
    ("sel", ("gt", ("add", C_ONLY_IT, L(1)), L(0))),
)
FLAGSETS = ((True, False, False), (True, True, False), (True, False, True), (False, True, False), (False, False, True))
MULTI_PE_OPS = (
    ("calc", "w", ("add", C_ONLY_SQL, L(1))),
    ("calc", "z", A_PLUS_B),
    ("proj", ("a",)),
    ("sel", P_B_EQ_1),
    ("dedup",),
    S((R("c"), DESC)),
    ("slice", 0, 2),
    ("sel", P_ONLY_SQL),
)
MULTI_PE = tuple(pe(op, eng, *f) for op in MULTI_PE_OPS for eng in ("s", "e1") for f in FLAGSETS)
MULTI_JOIN = (
    ("join", ("K",), None, False),
    ("join", ("K",), P_D_GT_A, False),
    pe(("join", ("K",), None, False), "s", True, True, False),
    pe(("join", ("K",), None, False), "s", False, True, False),
    pe(("join", ("K",), None, True), "s", True, False, False),
    ("join", ("K1",), None, False),
    # explicit preferred engine different from the fixed operand's engine (PartialJoin.apply)
    pe(("join", ("K1",), None, False), "s", True, False, False),
    pe(("join", ("K1",), None, False), "s", True, True, False),
    pe(("join", ("K1",), None, False), "e2", True, False, False),
    pe(("join", ("K",), None, False), "e1", True, False, False),
    pe(("join", ("K",), None, False), "e1", True, True, False),
    ("join", ("K",), None, False, ("a",)),
    pe(("join", ("K",), None, False, ("a",)), "s", True, True, False),
    ("join", ("K",), ("or", ("only", "iteration", P_A_GT_1), P_TRUE), False),
    ("join", ("I1",), None, False),
    ("join", ("IS",), None, False),
    ("join", ("IS",), None, True),
)
MULTI_FULL = MULTI_PLAIN + MULTI_PE + MULTI_JOIN


# ------------------------------------------------------------------ data-exhaustive worlds
def _cube_lists(maxlen):
    import itertools

    cube = [(i, j, k) for i in (0, 1) for j in (0, 1) for k in (0, 1)]
    return [t for n in range(0, maxlen + 1) for t in itertools.product(cube, repeat=n)]


def it_data_world(maxlen=2):
    """Iteration world whose roots T0..Tn are ALL row lists of length <= maxlen over the 2x2x2 cube
    (n = 10*a appended), plus the usual operands."""
    e = "e1"
    leaves = [
        LeafSpec(f"T{i}", e, ABCN, tuple(r + (10 * r[0],) for r in rows)) for i, rows in enumerate(_cube_lists(maxlen))
    ]
    leaves += [LeafSpec("L2", e, ABCN, SIB), LeafSpec("E0", e, ABCN, (), min_rows=0, max_rows=0)]
    return World(engines=(("e1", "it"), ("e2", "it")), leaves=tuple(leaves)), tuple(
        f"T{i}" for i in range(len(_cube_lists(maxlen)))
    )


def sql_data_world(maxlen=2):
    s = "s"
    leaves = [LeafSpec(f"T{i}", s, ABC, tuple(rows)) for i, rows in enumerate(_cube_lists(maxlen))]
    leaves += [
        LeafSpec("Y", s, ABC, ((0, 0, 1), (1, 1, 0), (0, 0, 1))),
        LeafSpec("K", s, ("a", "d"), ((0, 7), (1, 8), (1, 9))),
        LeafSpec("K2", s, ("b", "d2"), ((0, 5), (1, 6))),
        LeafSpec("E", s, ABC, (), min_rows=0, max_rows=0),
        LeafSpec("X", s, ABC, XROWS),
        LeafSpec("I0", s, (), ((),), special="identity"),
        LeafSpec("D0", s, ABC, (), special="doomed"),
    ]
    return World(engines=(("s", "sql"),), leaves=tuple(leaves)), tuple(f"T{i}" for i in range(len(_cube_lists(maxlen))))


P_A_GT_0 = ("gt", R("a"), L(0))
P_B_EQ_C = ("eq", R("b"), R("c"))
IT_DATA_OPS = (
    ("calc", "x", A_PLUS_B),
    ("proj", ("a", "b")),
    ("proj", ("b", "c")),
    ("proj", ("a", "n")),
    ("proj", ()),
    ("sel", P_A_GT_0),
    ("sel", P_B_EQ_C),
    ("sel", P_A_SEQ),
    ("dedup",),
    S((R("a"), DESC)),
    S((R("b"), ASC), (R("a"), DESC)),
    S((A_PLUS_B, DESC)),
    S((R("a"), ASC), (R("a"), DESC)),
    ("slice", 0, 1),
    ("slice", 1, None),
    ("slice", 1, 2),
    ("chain", ("self",)),
    ("chain", ("L2",)),
    ("mat", "m1"),
)
SQL_DATA_OPS = (
    ("calc", "x", A_PLUS_B),
    ("proj", ("a", "b")),
    ("proj", ("b", "c")),
    ("proj", ()),
    ("sel", P_A_GT_0),
    ("sel", P_B_EQ_C),
    ("dedup",),
    S((R("c"), ASC), (R("a"), ASC), (R("b"), ASC)),
    S((R("b"), DESC)),
    ("slice", 0, 1),
    ("slice", 1, None),
    ("chain", ("self",)),
    ("chain", ("Y",)),
    ("join", ("K",), None, False),
    ("join", ("K",), P_D_GT_A, True),
    ("join", ("Y", ("proj", ("a", "b"))), None, False),
    ("join", ("K2",), None, False),
)


# ------------------------------------------------------------------ expression-rich alphabets (C01, C02)
def _expr_ops(cols=("a", "b", "c")):
    a, b, c = (R(x) for x in cols)
    scal = [
        ("neg", a),
        ("add", a, b),
        ("sub", a, c),
        ("mul", a, b),
        ("add", ("mul", a, L(2)), b),
        ("sub", L(3), ("neg", b)),
        ("mul", ("add", a, L(-2)), ("sub", b, L(1))),
    ]
    cmps = [(k, x, y) for k in ("eq", "ne", "lt", "le", "gt", "ge") for x, y in ((a, b), (a, L(2)), (("add", a, b), c), (L(1), b))]
    preds = list(cmps)
    preds += [
        ("and", ("gt", a, L(1)), ("le", b, L(1))),
        ("or", ("lt", a, L(2)), ("eq", b, L(2))),
        ("not", ("or", ("gt", a, L(1)), ("eq", b, L(1)))),
        ("and", ("or", ("eq", a, L(1)), ("eq", a, L(3))), ("not", ("eq", b, L(2))), ("plit", True)),
        ("or",),
        ("and",),
        ("not", ("and",)),
        ("in_range", a, (1, 4, 2)),
        ("in_range", a, (3, 0, -1)),
        ("in_range", ("sub", a, b), (-2, 2, 1)),
        ("in_range", a, (5, 5, 1)),
        ("in_seq", a, (b, L(3))),
        ("in_seq", ("add", a, b), (L(3), L(4), c)),
        ("in_seq", a, ()),
        # LogicalAnd / LogicalOr nodes built directly, with the arities the factories fold away
        ("andn", ("gt", a, L(1))),
        ("orn",),
        ("andn",),
        ("or", ("lt", a, L(2)), ("andn", ("eq", b, L(2)), ("orn",))),
    ]
    ops = [("sel", p) for p in preds]
    ops += [("calc", "x", e) for e in scal]
    ops += [("calc", "y", ("mul", R("x"), L(-1)))]
    ops += [
        S((scal[1], DESC), (a, ASC)),
        S((scal[0], ASC), (c, DESC), (b, ASC)),
        S((R("x"), DESC), (c, ASC), (a, ASC), (b, ASC)),
        S((scal[6], ASC), (c, ASC), (a, ASC), (b, ASC)),
        ("dedup",),
        ("slice", 1, 4),
        ("proj", ("a", "b")),
        ("proj", ("x", "c")),
        ("chain", ("self",)),
    ]
    return tuple(ops)


EXPR_OPS = _expr_ops()


# ------------------------------------------------------------------ set-iteration-order world (C02)
# The SQL engine builds SELECT lists by iterating Python sets of column tags.  tests.ColumnTag hashes
# 'a' (97) and 'y' (121) to the same slot of a small set table, so two *equal* column sets iterate in
# insertion order: {a, y} built as (a, y) and as (y, a) list their members differently.  This world owns
# that source of nondeterminism: the same columns reach a UNION through every insertion history.
def collide_world():
    s = "s"
    leaves = (
        LeafSpec("PA", s, ("a", "y"), ((1, 10), (2, 20), (2, 20), (3, 10))),
        LeafSpec("QB", s, ("y", "a"), ((30, 3), (10, 1), (20, 5))),
        LeafSpec("Ua", s, ("a",), ((1,), (2,))),
        LeafSpec("Uy", s, ("y",), ((10,), (20,))),
    )
    return World(engines=(("s", "sql"),), leaves=leaves)


def collide_orders_differ():
    """Vacuity guard: the two insertion histories really iterate differently in this interpreter."""
    from . import alphabet as A

    return [t.qualified_name for t in A.tags(("a", "y"))] != [t.qualified_name for t in A.tags(("y", "a"))]


P_Y_GE_20 = ("ge", R("y"), L(20))
COLLIDE_OPS = (
    ("chain", ("QB",)),
    ("chain", ("QB",), True),
    ("chain", ("PA",)),
    ("chain", ("Uy", ("join", ("Ua",), None, False))),
    ("chain", ("Ua", ("join", ("Uy",), None, False)), True),
    ("chain", ("self",)),
    ("join", ("Uy",), None, False),
    ("join", ("Ua",), None, True),
    ("dedup",),
    ("proj", ("y",)),
    ("proj", ("a",)),
    ("sel", P_A_GT_1),
    ("sel", P_Y_GE_20),
    ("calc", "x", NEG_A),
    S((R("y"), ASC), (R("a"), DESC)),
    ("slice", 0, 2),
)
COLLIDE_ROOTS = ("PA", "QB", "Ua", "Uy")
