"""Entry point: ``python -m vf.run <Cnn> <quick|thorough>`` or ``--replay <path>``."""

from __future__ import annotations

import importlib
import json
import os
import sys
import time


def _assert_environment():
    import lsst.daf.relation as pkg

    here = os.path.realpath(pkg.__file__)
    root = os.path.realpath(os.environ.get("VERIF_REPO_OVERRIDE", "/repo")) + "/python/"
    if not here.startswith(root):
        print(f"HARNESS-ERROR: lsst.daf.relation imported from {here}, not {root}", file=sys.stderr)
        sys.exit(2)


def _finish(pid, tier, seed, result, t0):
    from . import evidence, findings

    viols = result.get("violations", [])
    known = [v for v in viols if v.get("finding")]
    new = [v for v in viols if not v.get("finding")]
    # known findings: one line per listed finding that reproduced
    listed = {f["id"]: f for f in findings.findings_for(pid)}
    hit = {}
    for v in known:
        hit.setdefault(v["finding"], []).append(v)
    for fid, vs in hit.items():
        f = listed.get(fid, {"summary": "?"})
        print(f"KNOWN-FINDING: property={pid} {fid}: {f['summary']} [{len(vs)} instance(s) this run]")
    # new violations
    lines = 0
    by_kind = {}
    for v in new:
        by_kind.setdefault(v.get("kind", "?"), []).append(v)
    for kind, vs in by_kind.items():
        vs.sort(key=lambda v: len(json.dumps(v.get("case"), default=str)))
        for v in vs[:5]:
            path = evidence.write_replay(pid, tier, v)
            print(f"VIOLATION property={pid} replay={path}")
            print(f"  kind={kind} {v.get('program_str', '')} :: {v.get('detail', '')}"[:400])
            lines += 1
        if len(vs) > 5:
            print(f"  ... {len(vs) - 5} more violations of kind {kind}")
    coverage = dict(result["coverage"])
    coverage["known_finding_instances"] = {k: len(v) for k, v in hit.items()}
    coverage["violation_kinds"] = {k: len(v) for k, v in by_kind.items()}
    wall = time.time() - t0
    evidence.write_evidence(
        pid,
        tier,
        seed,
        coverage,
        wall,
        len(new),
        result.get("assumptions", []),
        level=result.get("level", "model_checking"),
    )
    c = coverage
    print(
        f"[{pid} {tier}] states={c.get('states')} transitions={c.get('transitions')} "
        f"evaluations={c.get('evaluations')} distinct_nontrivial={c.get('distinct_nontrivial')} "
        f"exhaustive={c.get('exhaustive')} known={len(known)} violations={len(new)} wall={wall:.1f}s"
    )
    return 1 if new else 0


def main(argv):
    os.environ.setdefault("PYTHONHASHSEED", "0")
    _assert_environment()
    t0 = time.time()
    seed = int(os.environ.get("VERIF_SEED", "0"))
    if argv and argv[0] == "--replay":
        path = argv[1]
        with open(path) as f:
            doc = json.load(f)
        pid = doc["property"]
        mod = importlib.import_module(f"vf.checks.{pid.lower()}")
        viols = mod.replay(doc)
        new = [v for v in viols if not v.get("finding")]
        for v in viols:
            tag = f"KNOWN-FINDING: property={pid} {v['finding']}" if v.get("finding") else f"VIOLATION property={pid} replay={path}"
            print(tag)
            print(f"  kind={v.get('kind')} {v.get('program_str', '')} :: {v.get('detail', '')}"[:600])
        if not viols:
            print(f"replay of {path}: no violation")
        return 1 if new else 0
    pid, tier = argv[0], (argv[1] if len(argv) > 1 else os.environ.get("VERIF_TIER", "quick"))
    mod = importlib.import_module(f"vf.checks.{pid.lower()}")
    from . import findings

    witness_viols = []
    for f in findings.findings_for(pid):
        w = (f.get("witness") or {}).get(pid)
        if w and hasattr(mod, "replay"):
            witness_viols.extend(mod.replay({"case": w}))
    result = mod.run(tier, seed)
    result["violations"] = list(result.get("violations", [])) + witness_viols
    result["coverage"]["known_finding_witnesses_replayed"] = len(findings.findings_for(pid))
    return _finish(pid, tier, seed, result, t0)


if __name__ == "__main__":
    try:
        sys.exit(main(sys.argv[1:]))
    except SystemExit:
        raise
    except BaseException as e:  # noqa: BLE001
        import traceback

        traceback.print_exc()
        print(f"HARNESS-ERROR: {type(e).__name__}: {e}", file=sys.stderr)
        sys.exit(2)
