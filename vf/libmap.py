"""Reverse map: library operation / expression objects -> mini-AST (by public fields only).

Needed where the library *hands back* operations (commutators, simplify results) that the
reference evaluator must interpret.
"""

from __future__ import annotations

from . import alphabet as A

from lsst.daf.relation import (
    Calculation,
    ColumnExpressionSequence,
    ColumnFunction,
    ColumnInContainer,
    ColumnLiteral,
    ColumnRangeLiteral,
    ColumnReference,
    Deduplication,
    Identity,
    LogicalAnd,
    LogicalNot,
    LogicalOr,
    PartialJoin,
    PredicateFunction,
    PredicateLiteral,
    PredicateReference,
    Projection,
    Selection,
    Slice,
    Sort,
)

_ARITH = {"__add__": "add", "__sub__": "sub", "__mul__": "mul"}
_CMP = {"__eq__": "eq", "__ne__": "ne", "__lt__": "lt", "__le__": "le", "__gt__": "gt", "__ge__": "ge"}


class Unmappable(Exception):
    pass


def expr_from_lib(e):
    match e:
        case ColumnLiteral(value=v):
            return ("lit", v)
        case ColumnReference(tag=t):
            return ("ref", t.qualified_name)
        case ColumnFunction(name=A.EFN_NAME, args=(x,)):
            return ("efn", expr_from_lib(x))
        case ColumnFunction(name="__neg__", args=(x,)):
            return ("neg", expr_from_lib(x))
        case ColumnFunction(name=n, args=(x, y)) if n in _ARITH:
            return (_ARITH[n], expr_from_lib(x), expr_from_lib(y))
        case PredicateFunction(name=n, args=(x, y)) if n in _CMP:
            return (_CMP[n], expr_from_lib(x), expr_from_lib(y))
        case PredicateLiteral(value=v):
            return ("plit", bool(v))
        case PredicateReference(tag=t):
            return ("pref", t.qualified_name)
        case LogicalNot(operand=o):
            return ("not", expr_from_lib(o))
        case LogicalAnd(operands=ops):
            return ("and",) + tuple(expr_from_lib(o) for o in ops)
        case LogicalOr(operands=ops):
            return ("or",) + tuple(expr_from_lib(o) for o in ops)
        case ColumnInContainer(item=i, container=ColumnRangeLiteral(value=r)):
            return ("in_range", expr_from_lib(i), (r.start, r.stop, r.step))
        case ColumnInContainer(item=i, container=ColumnExpressionSequence(items=items)):
            return ("in_seq", expr_from_lib(i), tuple(expr_from_lib(x) for x in items))
    raise Unmappable(repr(e))


def op_from_lib(op, operand_namer=None):
    """Library unary operation -> mini-AST op.  PartialJoin needs ``operand_namer(fixed) -> operand``."""
    match op:
        case Identity():
            return ("proj_all",)
        case Calculation(tag=t, expression=e):
            return ("calc", t.qualified_name, expr_from_lib(e))
        case Projection(columns=c):
            return ("proj", tuple(sorted(t.qualified_name for t in c)))
        case Selection(predicate=p):
            return ("sel", expr_from_lib(p))
        case Deduplication():
            return ("dedup",)
        case Sort(terms=terms):
            return ("sort", tuple((expr_from_lib(t.expression), bool(t.ascending)) for t in terms))
        case Slice(start=s, stop=e):
            return ("slice", s, e)
        case PartialJoin(binary=j, fixed=f, fixed_is_lhs=is_lhs):
            if operand_namer is None:
                raise Unmappable("PartialJoin without operand namer")
            pred = expr_from_lib(j.predicate)
            common = None
            if j.min_columns == j.max_columns:
                common = tuple(sorted(t.qualified_name for t in j.min_columns))
            return ("pjoin", operand_namer(f), None if pred == ("plit", True) else pred, bool(is_lhs), common)
    raise Unmappable(repr(op))
