"""Debug helper: python -m vf.show <replay.json>  -- prints tree, SQL, rows vs reference."""
import json, sys
from . import alphabet as A, spaces
from .realize import Ctx, compile_sql, run_sql
from .refmodel import ref_run

def main(path):
    doc = json.load(open(path))
    prog = A.from_jsonable(doc["case"]["program"])
    label = doc["case"]["sub"]
    w = spaces.sql_world() if label.startswith("sql") else spaces.it_world()
    ctx = Ctx(w)
    print("program:", A.fmt_prog(prog))
    rel = ctx.build(prog)
    print("tree:", rel)
    try:
        print("ref:", list(ref_run(prog, w.scenario()).rows))
    except Exception as e:
        print("ref raised", repr(e))
    if label.startswith("sql"):
        text, params = compile_sql(rel.engine, rel)
        print("sql:", text, params)
        print("rows:", run_sql(text, params))
    else:
        print("rows:", ctx.rows_of(rel))

main(sys.argv[1])
