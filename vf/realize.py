"""Realisation layer: real engines, leaves, SQLite execution, lib-side program application."""

from __future__ import annotations

import dataclasses
import itertools
import re
import sqlite3
from typing import Any

import sqlalchemy
from lsst.daf.relation import (
    ColumnError,
    EngineError,
    LeafRelation,
    Processor,
    RelationalAlgebraError,
    iteration,
    sql,
)

from . import alphabet as A
from .refmodel import RefVal, Scenario


@dataclasses.dataclass(frozen=True)
class LeafSpec:
    name: str
    engine: str
    cols: tuple
    rows: tuple  # tuple of tuples aligned with cols
    min_rows: int | None = None  # None -> exact
    max_rows: Any = "exact"  # "exact" -> len(rows); None -> unbounded
    special: str | None = None  # "doomed" | "identity"
    leaf_name: str | None = None  # name given to the LeafRelation if different from the spec's key
    parameters: tuple | None = None  # handed to the leaf as a LIST (LeafRelation.parameters is typed Any)

    def row_dicts(self):
        return tuple(dict(zip(self.cols, r)) for r in self.rows)

    def bounds(self):
        lo = len(self.rows) if self.min_rows is None else self.min_rows
        hi = len(self.rows) if self.max_rows == "exact" else self.max_rows
        return lo, hi


@dataclasses.dataclass(frozen=True)
class World:
    """Engines + leaves of one exploration configuration."""

    engines: tuple  # ((name, kind), ...), kind in {"it","sql"}
    leaves: tuple  # LeafSpec...

    def kinds(self):
        return dict(self.engines)

    def scenario(self) -> Scenario:
        kinds = self.kinds()
        specs = {s.name: s for s in self.leaves}

        def leaf_val(name):
            s = specs[name]
            return RefVal(
                rows=s.row_dicts(),
                cols=frozenset(s.cols),
                det=kinds[s.engine] == "it",
                eng=s.engine,
            )

        return Scenario(kinds, leaf_val)


# ----------------------------------------------------------------------------- SQLite side
class _Db:
    """Per-process in-memory SQLite database holding leaf tables."""

    def __init__(self):
        self.db = sqlalchemy.create_engine("sqlite://")
        self.md = sqlalchemy.MetaData()
        self.conn = self.db.connect()
        self.raw: sqlite3.Connection = self.conn.connection.driver_connection
        self.tables: dict = {}
        self.counter = itertools.count()
        self.dialect = self.db.dialect

    def table_for(self, key, name, cols, row_dicts):
        """A created+populated table for (key); cached per process."""
        if key in self.tables:
            return self.tables[key]
        tname = name
        while tname in self.md.tables:
            tname = f"{name}_{next(self.counter)}"
        columns = [sqlalchemy.Column(c, sqlalchemy.Integer) for c in cols]
        if not columns:
            columns = [sqlalchemy.Column("_dummy", sqlalchemy.Integer)]
        table = sqlalchemy.Table(tname, self.md, *columns)
        table.create(self.conn)
        if row_dicts:
            if cols:
                self.conn.execute(table.insert(), [dict(r) for r in row_dicts])
            else:
                self.conn.execute(table.insert(), [{"_dummy": 0} for _ in row_dicts])
        self.conn.commit()
        self.tables[key] = table
        return table

    def temp_table(self, prefix, cols, row_dicts):
        return self.table_for(("tmp", next(self.counter)), f"{prefix}_t{next(self.counter)}", cols, row_dicts)


_DB: _Db | None = None
_DB_PID = None


def db() -> _Db:
    global _DB, _DB_PID
    import os

    if _DB is None or _DB_PID != os.getpid():
        _DB = _Db()
        _DB_PID = os.getpid()
    return _DB


def _matching_paren(s: str, i: int) -> int:
    depth = 0
    for j in range(i, len(s)):
        ch = s[j]
        if ch == "(":
            depth += 1
        elif ch == ")":
            depth -= 1
            if depth == 0:
                return j
    raise ValueError("unbalanced parentheses in SQL text")


def _has_top_level_union(inner: str) -> bool:
    depth = 0
    i = 0
    while i < len(inner):
        ch = inner[i]
        if ch == "(":
            depth += 1
        elif ch == ")":
            depth -= 1
        elif depth == 0 and inner.startswith("UNION", i) and (i == 0 or not inner[i - 1].isalnum()):
            return True
        i += 1
    return False


def sqlite_fix(s: str) -> str:
    """SQLite has no parenthesised compound-select *operand*: the library renders nested chains as
    ``(SELECT .. UNION ALL SELECT ..) UNION ALL ..`` (pinned by tests/test_sql_engine.py::test_chains;
    PostgreSQL accepts it).  Rewrite exactly those operands - a parenthesised group that is itself a
    compound select (has a top-level UNION) and is directly preceded or followed by UNION [ALL] - as
    ``SELECT * FROM ( .. )``, which preserves multiset and order.  Nothing else is touched; in
    particular a parenthesised *simple* SELECT with ORDER BY/LIMIT used as a compound operand (which
    the library avoids by nesting a subquery) stays as it is and SQLite rejects it.  DESIGN 2.3."""
    i = 0
    while True:
        i = s.find("(", i)
        if i < 0:
            return s
        rest = s[i + 1 :].lstrip()
        if rest.startswith("SELECT") or rest.startswith("("):
            j = _matching_paren(s, i)
            before = s[:i].rstrip()
            after = s[j + 1 :].lstrip()
            inner = s[i + 1 : j]
            if (before.endswith("UNION ALL") or before.endswith("UNION") or after.startswith("UNION")) and _has_top_level_union(
                inner
            ):
                s = s[:i] + "SELECT * FROM (" + s[i + 1 :]
                i += len("SELECT * FROM (")
                continue
        i += 1


def compile_sql(engine, relation):
    """to_executable + compile for pysqlite with positional parameters."""
    q = engine.to_executable(relation)
    comp = q.compile(dialect=db().dialect, compile_kwargs={"render_postcompile": True})
    text = sqlite_fix(str(comp))
    params = [comp.params[k] for k in (comp.positiontup or ())]
    return text, params


def run_sql(text, params, reverse=False):
    raw = db().raw
    raw.execute(f"PRAGMA reverse_unordered_selects={'ON' if reverse else 'OFF'}")
    cur = raw.execute(text, params)
    names = [d[0] for d in cur.description]
    return [{n: v for n, v in zip(names, row) if n != "IGNORED"} for row in cur.fetchall()]


def fetch_sql(engine, relation, reverse=False):
    text, params = compile_sql(engine, relation)
    return run_sql(text, params, reverse)


# ----------------------------------------------------------------------------- context
class Ctx:
    """Fresh real engines and leaves for one World."""

    def __init__(self, world: World, payload_factory=None):
        self.world = world
        self.kinds = world.kinds()
        self.engines: dict = {}
        for name, kind in world.engines:
            self.engines[name] = iteration.Engine(name=name) if kind == "it" else sql.Engine(name=name)
        for name, kind in world.engines:
            if kind == "it" and name in A.EFN_FACTORS:
                # a named function with an engine-specific meaning (alphabet node "efn")
                self.engines[name].functions[A.EFN_NAME] = A.efn_impl(name)
        self.leaves: dict = {}
        self.leaf_payloads: dict = {}
        for s in world.leaves:
            self.leaves[s.name] = self._make_leaf(s, payload_factory)

    def _make_leaf(self, s: LeafSpec, payload_factory):
        eng = self.engines[s.engine]
        kind = self.kinds[s.engine]
        cols = A.tags(s.cols)
        if s.special == "doomed":
            return eng.make_doomed_relation(cols, ["doomed leaf"], name=s.name)
        if s.special == "identity":
            return eng.make_join_identity_relation(name=s.name)
        lo, hi = s.bounds()
        params = None if s.parameters is None else list(s.parameters)
        if kind == "it":
            rows = [{A.tag(c): v for c, v in zip(s.cols, r)} for r in s.rows]
            payload = payload_factory(s, rows) if payload_factory else iteration.RowSequence(rows)
            if s.special == "chained":
                # a lazy leaf payload that is itself a ChainRowIterable over a (mutable) list of parts - legal
                # for a LeafRelation built directly, and aliasable by anything that "flattens" chains
                h = len(rows) // 2
                payload = iteration.ChainRowIterable([iteration.RowSequence(rows[:h]), iteration.RowSequence(rows[h:])])
            self.leaf_payloads[s.name] = payload
            return LeafRelation(
                eng, cols, payload, name=s.leaf_name or s.name, min_rows=lo, max_rows=hi, parameters=params
            )
        table = db().table_for(("leaf", s.name, s.cols, s.rows), s.name, s.cols, s.row_dicts())
        payload = sql.Payload(
            from_clause=table, columns_available={A.tag(c): table.columns[c] for c in s.cols}
        )
        self.leaf_payloads[s.name] = payload
        return eng.make_leaf(cols, payload, name=s.leaf_name or s.name, min_rows=lo, max_rows=hi, parameters=params)

    # -- program application
    def operand(self, rel, operand):
        if operand[0] == "self":
            # the current relation itself, optionally with further operations applied (shared sub-tree object)
            for op in operand[1:]:
                rel = self.apply(rel, op)
            return rel
        return self.build(operand)

    def build(self, prog):
        rel = self.leaves[prog[0]]
        for op in prog[1:]:
            rel = self.apply(rel, op)
        return rel

    def apply(self, rel, op, **flags):
        k = op[0]
        if k == "pe":
            _, inner, eng, bt, tr, req = op
            return self.apply(
                rel,
                inner,
                preferred_engine=self.engines[eng],
                backtrack=bt,
                transfer=tr,
                require_preferred_engine=req,
            )
        if k == "calc":
            return rel.with_calculated_column(A.tag(op[1]), A.to_lib(op[2]), **flags)
        if k == "proj":
            return rel.with_only_columns(A.tags(op[1]), **flags)
        if k == "proj_all":
            return rel.with_only_columns(frozenset(rel.columns), **flags)
        if k == "sel":
            return rel.with_rows_satisfying(A.to_lib(op[1]), **flags)
        if k == "dedup":
            return rel.without_duplicates(**flags)
        if k == "sort":
            return rel.sorted(A.sort_terms_to_lib(op[1]), **flags)
        if k == "slice":
            if flags:
                from lsst.daf.relation import Slice

                return Slice(op[1], op[2]).apply(rel, **flags)
            return rel[op[1] : op[2]]
        if k == "rawslice":
            if flags:
                from lsst.daf.relation import Slice

                return Slice(op[1] if op[1] is not None else 0, op[2]).apply(rel, **flags)
            return rel[slice(op[1], op[2], op[3])]
        if k == "index":
            return rel[op[1]]
        if k == "chain":
            if len(op) > 2 and op[2]:
                return self.operand(rel, op[1]).chain(rel)
            return rel.chain(self.operand(rel, op[1]))
        if k == "join":
            other = self.operand(rel, op[1])
            pred = None if op[2] is None else A.to_lib(op[2])
            if len(op) > 5 and op[5] == "direct" and not flags:
                # the third public route: BinaryOperation.apply(lhs, rhs) on a Join object the caller built,
                # with or without pre-resolved common columns (no PartialJoin, no Relation.join in between)
                from lsst.daf.relation import Join, Predicate

                kw = {}
                if op[4] is not None:
                    kw = _join_columns_kw(op[4])
                j = Join(pred if pred is not None else Predicate.literal(True), **kw)
                return j.apply(other, rel) if op[3] else j.apply(rel, other)
            if len(op) > 4 and op[4] is not None:
                # explicit, pre-resolved common columns (public Join(min_columns=, max_columns=) API)
                from lsst.daf.relation import Join, Predicate

                j = Join(pred if pred is not None else Predicate.literal(True), **_join_columns_kw(op[4]))
                if op[3]:
                    return j.partial(rel).apply(other, **flags)
                return j.partial(other).apply(rel, **flags)
            if flags:
                # explicit preferred-engine options: the public PartialJoin.apply route (Relation.join offers
                # only backtrack/transfer and always prefers the fixed operand's engine)
                from lsst.daf.relation import Join, Predicate

                j = Join(pred if pred is not None else Predicate.literal(True))
                if op[3]:
                    return j.partial(rel).apply(other, **flags)
                return j.partial(other).apply(rel, **flags)
            if op[3]:
                return other.join(rel, pred)
            return rel.join(other, pred)
        if k == "mat":
            return rel.materialized(op[1])
        if k == "xfer":
            return rel.transferred_to(self.engines[op[1]])
        raise AssertionError(op)

    # -- observation
    def rows_of(self, rel, reverse=False):
        """Execute a single-engine relation and return list of {name: value}."""
        eng = rel.engine
        if isinstance(eng, iteration.Engine):
            return [{t.qualified_name: v for t, v in row.items()} for row in eng.execute(rel)]
        return fetch_sql(eng, rel, reverse)


def _join_columns_kw(cc):
    """Keyword arguments of Join for an explicit common-column request: a tuple of names (resolved:
    min == max) or ("mm", min_names, max_names | None) (unresolved: the join intersects with max and checks min)."""
    if cc[:1] == ("mm",):
        return {"min_columns": A.tags(cc[1]), "max_columns": None if cc[2] is None else A.tags(cc[2])}
    return {"min_columns": A.tags(cc), "max_columns": A.tags(cc)}


LIB_REJECT = (ColumnError, EngineError, RelationalAlgebraError)


def classify_exc(e: BaseException) -> str:
    """Exception class name at the granularity the properties use."""
    for cls in (ColumnError, EngineError):
        if isinstance(e, cls):
            return cls.__name__
    if isinstance(e, RelationalAlgebraError):
        return "RelationalAlgebraError"
    return type(e).__name__


# ----------------------------------------------------------------------------- real Processor
class LazyTransferRows(iteration.RowIterable):
    """Payload of a transfer into an iteration engine that was NOT asked to be cacheable
    (``materialize_as is None``): every iteration re-evaluates the source, as a streaming
    cursor would.  ``reads`` counts the evaluations."""

    def __init__(self, processor, source):
        self.processor, self.source, self.reads = processor, source, 0

    def __iter__(self):
        self.reads += 1
        cols, rows = self.processor._rows(self.source)
        return iter([{A.tag(c): r[c] for c in cols} for r in rows])


class RealProcessor(Processor):
    """A Processor that really moves rows between SQLite and the iteration engine.

    With ``lazy_transfers`` a transfer into an iteration engine returns a cacheable (materialized)
    payload only when the Processor asks for one (``materialize_as`` given), as the hook's documentation
    allows; otherwise the payload re-evaluates its source on every read."""

    def __init__(self, ctx: Ctx, lazy_transfers: bool = False):
        self.ctx = ctx
        self.log: list = []
        self.lazy_transfers = lazy_transfers

    def _rows(self, rel):
        eng = rel.engine
        cols = sorted(t.qualified_name for t in rel.columns)
        if isinstance(eng, iteration.Engine):
            return cols, [{t.qualified_name: v for t, v in row.items()} for row in eng.execute(rel)]
        return cols, fetch_sql(eng, rel)

    def _payload_for(self, engine, cols, rows, prefix):
        if isinstance(engine, iteration.Engine):
            return iteration.RowSequence([{A.tag(c): r[c] for c in cols} for r in rows])
        table = db().temp_table(prefix, tuple(cols), rows)
        return sql.Payload(from_clause=table, columns_available={A.tag(c): table.columns[c] for c in cols})

    def transfer(self, source, destination, materialize_as):
        self.log.append(("transfer", str(source), source.is_trivial, materialize_as))
        if self.lazy_transfers and materialize_as is None and isinstance(destination, iteration.Engine):
            return LazyTransferRows(self, source)
        cols, rows = self._rows(source)
        return self._payload_for(destination, cols, rows, "xfer")

    def materialize(self, target, name):
        self.log.append(("materialize", str(target), target.is_trivial, name))
        cols, rows = self._rows(target)
        return self._payload_for(target.engine, cols, rows, "mat")
