"""Bounded exhaustive exploration (model checking) machinery for lsst/daf_relation."""
