"""Reference model: a deliberately boring evaluator over ``list[dict]``.

Written against the property statements and the public documentation, not against the
implementation.  A value carries the row list under list semantics plus three flags that
say how much of it a conforming engine is obliged to reproduce:

``det``   the order of ``rows`` is determined by the program
``amb``   not even the multiset is determined (a slice consumed an unordered input)
``cdet``  the row *count* is determined even though ``amb`` may be set

plus bookkeeping the SQL order rules need (``srt``, ``psort``).
"""

from __future__ import annotations

import dataclasses
from typing import Any, Callable

from . import alphabet as A


class RefReject(Exception):
    """The call is ill-formed; ``classes`` = exception class names the documentation allows."""

    def __init__(self, classes, reason=""):
        super().__init__(reason)
        self.classes = frozenset(classes)
        self.reason = reason


class RefOOC(Exception):
    """Evaluation point outside the documented contract (is_key functional dependency,
    'unspecified' column choice in joins).  Excluded from comparison and counted."""


@dataclasses.dataclass(frozen=True)
class RefVal:
    rows: tuple  # tuple of dict name->int (treated as immutable)
    cols: frozenset
    det: bool
    amb: bool = False
    cdet: bool = True
    srt: frozenset | None = None
    psort: bool = False
    eng: str = "e1"
    # reserved "the engine MAY refuse to bury an ORDER BY here" state; no rule sets it any more (C11's
    # last sentence is read literally: every sort no slice has consumed is pending - ``psort``)
    osort: bool = False
    # sub-bag rule: when ``amb``, every legal result is a sub-bag of ``base`` (the per-row operations and
    # deduplications applied since the ambiguous slice, applied to that slice's WHOLE input); None = no claim
    base: tuple | None = None

    def digest(self):
        return (
            tuple(tuple(sorted(r.items())) for r in self.rows),
            tuple(sorted(self.cols)),
            self.det,
            self.amb,
            self.cdet,
            None if self.srt is None else tuple(sorted(self.srt)),
            self.psort,
            self.osort,
            self.eng,
            None if self.base is None else tuple(tuple(sorted(r.items())) for r in self.base),
        )


def canon_bag(rows):
    return sorted(tuple(sorted(r.items())) for r in rows)


def first_occurrence_dedup(rows):
    seen = set()
    out = []
    for r in rows:
        k = tuple(sorted(r.items()))
        if k not in seen:
            seen.add(k)
            out.append(r)
    return out


def sort_rows(rows, terms):
    """Stable multi-key sort, as one ``sorted`` with a sign-adjusted tuple key."""

    def key(r):
        return tuple(A.ref_eval(e, r) if asc else -A.ref_eval(e, r) for e, asc in terms)

    out = sorted(rows, key=key)
    total = all(out[i] == out[i + 1] or key(out[i]) != key(out[i + 1]) for i in range(len(out) - 1))
    return out, total


def fd_violated(rows, cols):
    """True if two rows agree on all key columns but differ elsewhere (is_key contract broken)."""
    keys = sorted(c for c in cols if A.is_key(c))
    seen: dict = {}
    for r in rows:
        k = tuple(r[c] for c in keys)
        if k in seen:
            if seen[k] != r:
                return True
        else:
            seen[k] = r
    return False


class Scenario:
    """What the reference needs to know about the world: engine kinds and operand values."""

    def __init__(self, engine_kinds: dict, leaf_vals: Callable[[str], RefVal]):
        self.engine_kinds = engine_kinds  # name -> "it" | "sql"
        self.leaf_val = leaf_vals
        # Join operands that both expose a column that is NOT a join column, with different values: which
        # operand's value the result carries is not documented (out of contract).  Checks whose property is
        # purely relative (C04: commuted == original) may set this to evaluate such points with the only
        # engine's actual convention (the right-hand operand wins).
        self.shadow_ok = False

    def kind(self, eng):
        return self.engine_kinds[eng]


_ALSO_ALLOWED: list = []  # engine kinds an enclosing preferred-engine call may legitimately place the operation in


def _restriction_error(expr, kind, eng=None):
    r = A.engine_restriction(expr)
    if r is None:
        return False
    want = "it" if r == "iteration" else "sql"
    return want != kind and want not in _ALSO_ALLOWED


def ref_apply(
    val: RefVal, op, scen: Scenario, marker_has_sort: bool | None = None, observed_engine: str | None = None
) -> RefVal:
    """Apply one operation to a reference value; raise RefReject for ill-formed calls.

    ``marker_has_sort`` / ``observed_engine`` are the two observations of the real result the
    reference needs (DESIGN 2.2): whether the public root Select marker still carries the sort, and
    in which engine a call with ``transfer=True`` placed its result (the documentation leaves that
    to whether backtracking succeeded)."""
    k = op[0]
    kind = scen.kind(val.eng)
    sql = kind == "sql"
    rows, cols = val.rows, val.cols
    rep = dataclasses.replace
    if k == "pe":
        # preferred-engine options never change meaning (C03).  With transfer=True the result may live in
        # the preferred engine (if backtracking did not place the operation upstream): follow the observation.
        _, inner, pref, _bt, do_transfer, _req = op
        # an engine-restricted expression is acceptable if the preferred engine supports it (whether the
        # call then succeeds by backtracking/transfer or raises EngineError is judged on the real tree)
        if inner[0] == "join" and (_bt or do_transfer):
            other = scen_operand(val, inner[1], scen)
            if other.eng != val.eng:
                # a join whose operands live in different engines is still a well-defined relation when
                # backtracking/transfer may place it; evaluate it where the partner lives and put the result
                # in the engine the real call put it (judging EngineError vs. success is the checks' business)
                moved = ref_apply(val, ("xfer", other.eng), scen)
                res = ref_apply(moved, inner, scen, None)
                home = observed_engine if observed_engine in (val.eng, other.eng, pref) else val.eng
                return res if home == res.eng else ref_apply(res, ("xfer", home), scen)
        _ALSO_ALLOWED.append(scen.kind(pref))
        try:
            if do_transfer and pref != val.eng and observed_engine == pref:
                val = ref_apply(val, ("xfer", pref), scen)
                return ref_apply(val, inner, scen, None)
            return ref_apply(val, inner, scen, marker_has_sort)
        finally:
            _ALSO_ALLOWED.pop()
    if k == "calc":
        _, t, e = op
        e = A.bind_engine(e, val.eng)
        errs = set()
        if not A.free_cols(e) <= cols or t in cols:
            errs.add("ColumnError")
        if _restriction_error(e, kind, val.eng):
            errs.add("EngineError")
        if errs:
            raise RefReject(errs, f"calc {t}")
        det = val.det and (not sql or bool(marker_has_sort))
        ps = val.psort  # a pending sort stays pending through row-wise operations (C11, last sentence)
        base = None if val.base is None else tuple({**r, t: A.ref_eval(e, r)} for r in val.base)
        return rep(
            val, rows=tuple({**r, t: A.ref_eval(e, r)} for r in rows), cols=cols | {t}, det=det, psort=ps, base=base
        )
    if k == "proj_all":
        return val
    if k == "proj":
        p = frozenset(op[1])
        if p == cols:
            return val
        if not p <= cols:
            raise RefReject({"ColumnError"}, "proj")
        base = None if val.base is None else tuple({c: r[c] for c in p} for r in val.base)
        return rep(val, rows=tuple({c: r[c] for c in p} for r in rows), cols=p, base=base)
    if k == "sel":
        p = A.bind_engine(op[1], val.eng)
        if A.trivial_value(p) is True:
            return val
        errs = set()
        if not A.free_cols(p) <= cols:
            errs.add("ColumnError")
        if _restriction_error(p, kind, val.eng):
            errs.add("EngineError")
        if errs:
            raise RefReject(errs, "sel")
        det = val.det and (not sql or bool(marker_has_sort))
        ps = val.psort
        out = tuple(r for r in rows if A.ref_eval(p, r))
        base = None if val.base is None else tuple(r for r in val.base if A.ref_eval(p, r))
        return rep(val, rows=out, det=det, psort=ps, cdet=val.cdet and not val.amb, base=base)
    if k == "dedup":
        if not sql and fd_violated(rows, cols):
            raise RefOOC("dedup on rows violating the is_key functional dependency")
        det = val.det and (not sql or val.srt is None or val.srt <= cols)
        base = None if val.base is None else tuple(first_occurrence_dedup(val.base))
        return rep(val, rows=tuple(first_occurrence_dedup(rows)), det=det, cdet=val.cdet and not val.amb, base=base)
    if k == "sort":
        terms = tuple((A.bind_engine(e, val.eng), asc) for e, asc in op[1])
        if not terms:
            return val
        errs = set()
        need = frozenset().union(*[A.free_cols(e) for e, _ in terms])
        if not need <= cols:
            errs.add("ColumnError")
        if any(_restriction_error(e, kind, val.eng) for e, _ in terms):
            errs.add("EngineError")
        if errs:
            raise RefReject(errs, "sort")
        out, total = sort_rows(rows, terms)
        if sql:
            det = total and not val.amb
        else:
            det = (val.det or total) and not val.amb
        srt = need if val.srt is None else (val.srt | need)
        return rep(val, rows=tuple(out), det=det, srt=srt, psort=sql, osort=False)
    if k == "rawslice":
        _, start, stop, step = op
        if step not in (None, 1) or (start is not None and start < 0) or (stop is not None and stop < (start or 0)):
            raise RefReject({"ValueError", "TypeError"}, "slice negative, reversed or stepped")
        return ref_apply(val, ("slice", start or 0, stop), scen)
    if k == "index":
        raise RefReject({"ValueError", "TypeError"}, "non-slice key")
    if k == "slice":
        _, start, stop = op
        if start == 0 and stop is None:
            return val
        n = len(rows)
        out = rows[start:stop]
        amb = val.amb
        base = val.base
        if not val.det and not val.amb:
            whole = start == 0 and (stop is None or stop >= n)
            empty = len(out) == 0
            if not (whole or empty):
                amb = True
                base = rows  # whichever rows the engine picks, they come from here
        return rep(val, rows=tuple(out), amb=amb, psort=False, osort=False, base=base)
    if k == "chain":
        other = scen_operand(val, op[1], scen)
        errs = set()
        if other.eng != val.eng:
            errs.add("EngineError")
        if other.cols != cols:
            errs.add("ColumnError")
        if sql and (val.psort or other.psort):
            errs.add("RelationalAlgebraError")
        if errs and sql and (val.osort or other.osort):
            errs.add("RelationalAlgebraError")  # permitted, not required
        if errs:
            raise RefReject(errs, "chain")
        rev = len(op) > 2 and op[2]
        return RefVal(
            rows=(other.rows + rows) if rev else (rows + other.rows),
            cols=cols,
            det=(not sql) and val.det and other.det,
            amb=val.amb or other.amb,
            cdet=val.cdet and other.cdet,
            srt=None,
            psort=False,
            eng=val.eng,
        )
    if k == "join":
        _, operand, pred, reverse = op[:4]
        fixed_common = op[4] if len(op) > 4 else None
        other = scen_operand(val, operand, scen)
        lhs, rhs = (other, val) if reverse else (val, other)
        errs = set()
        mm_common = None
        if fixed_common is not None and fixed_common[:1] == ("mm",):
            # unresolved request: common = key columns of both operands, intersected with max, must cover min
            mn, mx = set(fixed_common[1]), (None if fixed_common[2] is None else set(fixed_common[2]))
            fixed_common = None
            mm_common = {c for c in lhs.cols & rhs.cols if A.is_key(c)}
            if mx is not None:
                mm_common &= mx
            if (mx is not None and not mn <= mx) or not all(A.is_key(c) for c in mn) or not mm_common >= mn:
                errs.add("ColumnError")
        if other.eng != val.eng:
            errs.add("EngineError")
        if pred is not None and A.trivial_value(pred) is not True:
            if not A.free_cols(pred) <= (lhs.cols | rhs.cols):
                errs.add("ColumnError")
            if _restriction_error(pred, kind, val.eng):
                errs.add("EngineError")
        if sql and (val.psort or other.psort):
            errs.add("RelationalAlgebraError")
        may_refuse = sql and (val.osort or other.osort)
        if fixed_common is not None and not (set(fixed_common) <= lhs.cols and set(fixed_common) <= rhs.cols):
            errs.add("ColumnError")  # explicitly requested common columns missing from an operand
        if fixed_common is not None and not all(A.is_key(c) for c in fixed_common):
            errs.add("ColumnError")  # join columns are key columns (C14); a non-key column cannot be requested
        if errs and may_refuse:
            errs.add("RelationalAlgebraError")  # permitted, not required
        if errs:
            raise RefReject(errs, "join")
        common = sorted(c for c in lhs.cols & rhs.cols if A.is_key(c))
        if mm_common is not None:
            common = sorted(mm_common)
        if fixed_common is not None:
            # join whose common columns were fixed by the caller (or resolved earlier: a PartialJoin handed back by commute())
            common = sorted(fixed_common)
        shared_other = sorted((lhs.cols & rhs.cols) - set(common))
        out = []
        for lr in lhs.rows:
            for rr in rhs.rows:
                if all(lr[c] == rr[c] for c in common):
                    m = {**lr, **rr}
                    if pred is None or A.ref_eval(pred, m):
                        if not scen.shadow_ok and any(lr[c] != rr[c] for c in shared_other):
                            raise RefOOC("join operands both expose a non-common column with different values")
                        out.append(m)
        amb = lhs.amb or rhs.amb
        return RefVal(
            rows=tuple(out),
            cols=lhs.cols | rhs.cols,
            det=False,
            amb=amb,
            cdet=not amb,
            srt=None,
            psort=False,
            eng=val.eng,
        )
    if k == "mat":
        if sql and val.psort:
            raise RefReject({"RelationalAlgebraError"}, "materialize under pending sort")
        return rep(val, psort=False, osort=False) if sql else val
    if k == "xfer":
        dest = op[1]
        if dest == val.eng:
            return val
        dkind = scen.kind(dest)
        if dkind == "sql":
            return rep(val, eng=dest, det=False, srt=None, psort=False, osort=False)
        return rep(val, eng=dest, srt=None, psort=False, osort=False)
    raise AssertionError(op)


def scen_operand(self_val: RefVal, operand, scen: Scenario) -> RefVal:
    if operand[0] == "self":
        val = self_val
        for op in operand[1:]:
            val = ref_apply(val, op, scen, None)
        return val
    return ref_run(operand, scen)


def ref_run(prog, scen: Scenario, observe: Callable[[int], Any] | None = None) -> RefVal:
    """Evaluate a whole program ``(leaf, op, ...)``; ``observe(i)`` may supply marker_has_sort after op i."""
    val = scen.leaf_val(prog[0])
    for i, op in enumerate(prog[1:]):
        val = ref_apply(val, op, scen, observe(i) if observe else None)
    return val


def compare(val: RefVal, got_rows, *, force_bag=False):
    """Compare observed rows (list of name->value dicts) with a reference value.

    Returns (strength, ok, detail) with strength in {"list", "bag", "weak"}.
    """
    if val.amb:
        ok = all(frozenset(r) == val.cols for r in got_rows)
        detail = "" if ok else "row keys differ from reference columns"
        if ok and val.cdet and len(got_rows) != len(val.rows):
            ok, detail = False, f"row count {len(got_rows)} != {len(val.rows)}"
        if ok and val.base is not None:
            import collections

            have = collections.Counter(tuple(sorted(r.items())) for r in val.base)
            for r in got_rows:
                k = tuple(sorted(r.items()))
                if have[k] <= 0:
                    ok, detail = False, f"row {r} cannot come from the rows the ambiguous slice could choose from"
                    break
                have[k] -= 1
        return "weak", ok, detail
    if val.det and not force_bag:
        ok = list(got_rows) == list(val.rows)
        return "list", ok, "" if ok else "row lists differ"
    ok = canon_bag(got_rows) == canon_bag(val.rows)
    return "bag", ok, "" if ok else "row multisets differ"
