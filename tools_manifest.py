#!/usr/bin/env python3
"""Regenerate MANIFEST.json from the table below (run after adding a check)."""
import json, os, sys

ROOT = os.path.dirname(os.path.abspath(__file__))
PROPS = [json.loads(l) for l in open(os.path.join(ROOT, "properties.jsonl"))]

# pid -> (technique, level text, level note, design ref)
CHECKS = {
    "C01": (
        "explicit-state BFS over real factory-call programs vs reference evaluator",
        "Bounded exhaustive exploration of the real iteration engine: every program over the alphabet up to the depth bound "
        "is built with real factory calls, executed, and compared as a row list with an independent reference evaluator; "
        "states are (tree, reference value) pairs, every transition a real call.",
        "Trusted: the reference evaluator (vf/refmodel.py), fixed adversarial leaf contents, small NULL-free integers; bounds: depth 3-5, operand pool fixed.",
        "DESIGN.md 3 C01",
    ),
}

NOT_YET = "check not built yet in this revision (planned, see DESIGN.md section 3)"


def main():
    checks = []
    for p in PROPS:
        pid = p["id"]
        if pid not in CHECKS:
            continue
        tech, text, note, ref = CHECKS[pid]
        checks.append(
            {
                "property_id": pid,
                "quick_cmd": f"./check {pid} quick",
                "thorough_cmd": f"./check {pid} thorough",
                "evidence_file": f"/verif/evidence/{pid}.json",
                "replay_cmd_template": "./check --replay {path}",
                "engine": "vf",
                "level_claimed": {"category": "model_checking", "text": text, "design_ref": ref},
                "level_note": note,
                "technique": tech,
            }
        )
    manifest = {
        "version": 1,
        "setup_cmd": "./setup.sh",
        "hooks": {
            "guard": "LSST_DAF_RELATION_VERIF",
            "enable": "no hooks are needed: checks import /repo/python directly (PYTHONPATH) and drive the public API",
            "baseline_off_cmd": "cd /repo && /venv/bin/python -m pytest -ra -q -p no:cacheprovider --timeout=900 --continue-on-collection-errors --junitxml=/verif/.scratch/baseline.junit.xml",
            "source_commits": [],
            "add_only": True,
        },
        "engines": [
            {
                "name": "vf",
                "path": "/verif/vf",
                "serves_properties": sorted(CHECKS),
                "kind_free_text": "hand-written explicit-state explorers (BFS over factory-call programs / histories, opcode-level thread schedule explorer) driving the real library against a reference model",
            }
        ],
        "checks": checks,
        "not_applicable": [
            {"property_id": p["id"], "reason": NOT_YET} for p in PROPS if p["id"] not in CHECKS
        ],
        "notes": "All checks run under /venv/bin/python with PYTHONPATH=/repo/python:/verif; see DESIGN.md.",
    }
    with open(os.path.join(ROOT, "MANIFEST.json"), "w") as f:
        json.dump(manifest, f, indent=1)
        f.write("\n")


if __name__ == "__main__":
    main()
