#!/usr/bin/env python3
"""Regenerate MANIFEST.json from the table below (run after adding a check)."""
import json, os, sys

ROOT = os.path.dirname(os.path.abspath(__file__))
PROPS = [json.loads(l) for l in open(os.path.join(ROOT, "properties.jsonl"))]

# pid -> (technique, level text, level note, design ref)
CHECKS = {
    "C01": (
        "explicit-state BFS over real factory-call programs vs reference evaluator",
        "Bounded exhaustive exploration of the real iteration engine: every program over the alphabet up to the depth bound "
        "is built with real factory calls, executed, and compared as a row list with an independent reference evaluator; "
        "states are (tree, reference value) pairs, every transition a real call.",
        "Trusted: the reference evaluator (vf/refmodel.py), fixed adversarial leaf contents, small NULL-free integers; bounds: depth 3-5, operand pool fixed.",
        "DESIGN.md 3 C01",
    ),
    "C02": (
        "explicit-state BFS over real SQL-engine factory-call programs; compiled SQL executed on SQLite in both scan orders vs reference evaluator",
        "Bounded exhaustive translation validation: every program over the SQL alphabet (six unary operations, joins with/without predicate in both operand orders, chains, pooled operands) up to the depth bound is built with real calls, compiled with to_executable, run on SQLite in both physical scan orders and compared with the reference (list where order is determined, multiset otherwise).",
        "Trusted: reference evaluator, SQLite 3.40 as the database, the SQLite adapter for parenthesised UNION operands; bounds: depth 2-5, fixed leaf tables, NULL-free small integers.",
        "DESIGN.md 3 C02",
    ),
    "C12": (
        "exhaustive enumeration of expression trees x rows; three-way agreement (iteration callable, SQLite, reference)",
        "Every expression/predicate tree up to the stated depth over the portable operator set, all 486 ranges with start,stop in [-4,4] and step in +-{1,2,3}, all sequences of 0-3 members, evaluated on all 49 rows by both real engine conversions and the reference interpreter.",
        "Trusted: reference interpreter (vf/alphabet.py ref_eval), SQLite integer semantics; bounds: depth <= 2, integers in [-4,4].",
        "DESIGN.md 3 C12",
    ),
    "C13": (
        "exhaustive enumeration of predicate trees x rows against as_trivial / flatten_logical_and / Selection / columns_required",
        "Every predicate tree up to depth 3 over all node types and every scalar expression up to depth 2 is built through the public factories; constant folding, conjunction flattening, Selection normalisation and required-column sets are judged against evaluation on every row of the bounded domain.",
        "Trusted: reference interpreter; required columns compared with syntactic free columns; bounds: depth <= 3, 12 rows.",
        "DESIGN.md 3 C13",
    ),
    "C04": (
        "exhaustive enumeration of (existing, new) operation pairs x all bounded targets; real commute() output interpreted by the reference",
        "Every ordered pair over 30 operation shapes is passed to the real commute(); the returned UnaryCommutator (first/second/done) is interpreted by the reference evaluator on all 585 row lists of length <= 3 over a 2x2x2 cube plus two rich lists and compared with existing-then-new, incl. well-formedness of both reported operations and the in-contract condition.",
        "Trusted: reference evaluator and the library->mini-AST reverse map (vf/libmap.py); bounds: schema {a,b,c}+partners, targets of length <= 3.",
        "DESIGN.md 3 C04",
    ),
    "C05": (
        "exhaustive enumeration of adjacent operation pairs x bounded targets through the real factories in both engines",
        "All 33^2 slice pairs on every target length 0..7, all 31^2 sort-term-list pairs on all 585 targets, all selection/projection/calculation pairs and every do-nothing form are applied through the real factories (iteration engine executed; SQL compiled and run on SQLite), must not raise, and must evaluate like the two operations in sequence; simplify() is also called directly and its result interpreted.",
        "Trusted: reference evaluator; SQL order compared only where determined; bounds as stated in the rule.",
        "DESIGN.md 3 C05",
    ),
    "C06": (
        "explicit-state BFS over programs in both engines from every leaf bound declaration; bounds/flags judged against reference row counts",
        "Every program up to the depth bound from leaves declared exact / loose / unbounded / single-row / empty / empty-loose: relation.columns, [min_rows,max_rows], is_join_identity and is_trivial are judged against the reference row count and the executed rows (both engines); thorough also interprets every sub-node of every result tree with the tree interpreter and checks that node's own bounds.",
        "Trusted: reference evaluator / tree interpreter; leaf declarations truthful by construction; count-undetermined programs (after ambiguous slices) only checked for columns.",
        "DESIGN.md 3 C06",
    ),
    "C08": (
        "explicit-state BFS over the widest operand pool; phase classification construction / compile / database",
        "Every accepted tree over the iteration alphabet and the widest SQL alphabet (joins and chains of chains, joins, deduplicated/sliced/projected/calculated operands, doomed and identity leaves) up to the depth bound is compiled and executed on SQLite in both scan orders (or executed and fully iterated); any exception after acceptance is a violation.",
        "Trusted: SQLite as target database with the UNION-operand adapter; iteration-engine joins and SQL materializations (need a Processor) are outside this alphabet.",
        "DESIGN.md 3 C08",
    ),
    "C11": (
        "explicit-state BFS over sort/slice-heavy SQL programs in both scan orders; list equality where the reference says order is determined; refusal probes",
        "Every SQL program over a sort/slice-heavy alphabet up to depth 4-5: where the reference says the order is determined by a total sort (with the keep-rules transcribing C11) the fetched list must equal the reference list in both physical scan orders and following slices are judged as determinate windows; every chain/join/materialization over a pending sort must raise.",
        "Trusted: reference order rules (det/psort in vf/refmodel.py); the 'outermost level carries a sort' gate for selection/calculation reads the public Select marker attributes.",
        "DESIGN.md 3 C11",
    ),
}

NOT_YET = "check not built yet in this revision (planned, see DESIGN.md section 3)"


def main():
    checks = []
    for p in PROPS:
        pid = p["id"]
        if pid not in CHECKS:
            continue
        tech, text, note, ref = CHECKS[pid]
        checks.append(
            {
                "property_id": pid,
                "quick_cmd": f"./check {pid} quick",
                "thorough_cmd": f"./check {pid} thorough",
                "evidence_file": f"/verif/evidence/{pid}.json",
                "replay_cmd_template": "./check --replay {path}",
                "engine": "vf",
                "level_claimed": {"category": "model_checking", "text": text, "design_ref": ref},
                "level_note": note,
                "technique": tech,
            }
        )
    manifest = {
        "version": 1,
        "setup_cmd": "./setup.sh",
        "hooks": {
            "guard": "LSST_DAF_RELATION_VERIF",
            "enable": "no hooks are needed: checks import /repo/python directly (PYTHONPATH) and drive the public API",
            "baseline_off_cmd": "cd /repo && /venv/bin/python -m pytest -ra -q -p no:cacheprovider --timeout=900 --continue-on-collection-errors --junitxml=/verif/.scratch/baseline.junit.xml",
            "source_commits": [],
            "add_only": True,
        },
        "engines": [
            {
                "name": "vf",
                "path": "/verif/vf",
                "serves_properties": sorted(CHECKS),
                "kind_free_text": "hand-written explicit-state explorers (BFS over factory-call programs / histories, opcode-level thread schedule explorer) driving the real library against a reference model",
            }
        ],
        "checks": checks,
        "not_applicable": [
            {"property_id": p["id"], "reason": NOT_YET} for p in PROPS if p["id"] not in CHECKS
        ],
        "notes": "All checks run under /venv/bin/python with PYTHONPATH=/repo/python:/verif; see DESIGN.md.",
    }
    with open(os.path.join(ROOT, "MANIFEST.json"), "w") as f:
        json.dump(manifest, f, indent=1)
        f.write("\n")


if __name__ == "__main__":
    main()
