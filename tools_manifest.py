#!/usr/bin/env python3
"""Regenerate MANIFEST.json from the table below (run after adding a check)."""
import json, os, sys

ROOT = os.path.dirname(os.path.abspath(__file__))
PROPS = [json.loads(l) for l in open(os.path.join(ROOT, "properties.jsonl"))]

# pid -> (technique, level text, level note, design ref)
CHECKS = {
    "C01": (
        "explicit-state BFS over real factory-call programs vs reference evaluator",
        "Bounded exhaustive exploration of the real iteration engine: every program over the alphabet up to the depth bound "
        "is built with real factory calls, executed, and compared as a row list with an independent reference evaluator; "
        "states are (tree, reference value) pairs, every transition a real call.",
        "Trusted: the reference evaluator (vf/refmodel.py), fixed adversarial leaf contents, small NULL-free integers; bounds: depth 3-5, operand pool fixed.",
        "DESIGN.md 3 C01",
    ),
    "C02": (
        "explicit-state BFS over real SQL-engine factory-call programs; compiled SQL executed on SQLite in both scan orders vs reference evaluator",
        "Bounded exhaustive translation validation: every program over the SQL alphabet (six unary operations, joins with/without predicate in both operand orders, chains, pooled operands) up to the depth bound is built with real calls, compiled with to_executable, run on SQLite in both physical scan orders and compared with the reference (list where order is determined, multiset otherwise).",
        "Trusted: reference evaluator, SQLite 3.40 as the database, the SQLite adapter for parenthesised UNION operands; bounds: depth 2-5, fixed leaf tables, NULL-free small integers.",
        "DESIGN.md 3 C02",
    ),
    "C12": (
        "exhaustive enumeration of expression trees x rows; three-way agreement (iteration callable, SQLite, reference)",
        "Every expression/predicate tree up to the stated depth over the portable operator set, all 486 ranges with start,stop in [-4,4] and step in +-{1,2,3}, all sequences of 0-3 members, AND/OR of every arity 0-3 (arities 0 and 1 also as directly constructed LogicalAnd/LogicalOr nodes, which the factories fold away), evaluated on all 49 rows by both real engine conversions and the reference interpreter.",
        "Trusted: reference interpreter (vf/alphabet.py ref_eval), SQLite integer semantics; bounds: depth <= 2, integers in [-4,4].",
        "DESIGN.md 3 C12",
    ),
    "C13": (
        "exhaustive enumeration of predicate trees x rows against as_trivial / flatten_logical_and / Selection / columns_required",
        "Every predicate tree up to depth 3 over all node types and every scalar expression up to depth 2 is built through the public factories (plus LogicalAnd/LogicalOr nodes constructed directly with 0 and 1 operands); constant folding, conjunction flattening, Selection normalisation and required-column sets are judged against evaluation on every row of the bounded domain.",
        "Trusted: reference interpreter; required columns compared with syntactic free columns; bounds: depth <= 3, 12 rows.",
        "DESIGN.md 3 C13",
    ),
    "C04": (
        "exhaustive enumeration of (existing, new) operation pairs x all bounded targets; real commute() output interpreted by the reference",
        "Every ordered pair over 30 operation shapes is passed to the real commute(); the returned UnaryCommutator (first/second/done) is interpreted by the reference evaluator on all 585 row lists of length <= 3 over a 2x2x2 cube plus two rich lists and compared with existing-then-new, incl. well-formedness of both reported operations and the in-contract condition.",
        "Trusted: reference evaluator and the library->mini-AST reverse map (vf/libmap.py); bounds: schema {a,b,c}+partners, targets of length <= 3.",
        "DESIGN.md 3 C04",
    ),
    "C05": (
        "exhaustive enumeration of adjacent operation pairs x bounded targets through the real factories in both engines",
        "All 33^2 slice pairs on every target length 0..7, all 31^2 sort-term-list pairs on all 585 targets, all selection/projection/calculation pairs and every do-nothing form are applied through the real factories (iteration engine executed; SQL compiled and run on SQLite), must not raise, and must evaluate like the two operations in sequence; simplify() is also called directly and its result interpreted.",
        "Trusted: reference evaluator; SQL order compared only where determined; bounds as stated in the rule.",
        "DESIGN.md 3 C05",
    ),
    "C06": (
        "explicit-state BFS over programs in both engines from every leaf bound declaration; bounds/flags judged against reference row counts",
        "Every program up to the depth bound from leaves declared exact / loose / unbounded / single-row / empty / empty-loose: relation.columns, [min_rows,max_rows], is_join_identity and is_trivial are judged against the reference row count and the executed rows (both engines); thorough also interprets every sub-node of every result tree with the tree interpreter and checks that node's own bounds.",
        "Trusted: reference evaluator / tree interpreter; leaf declarations truthful by construction; count-undetermined programs (after ambiguous slices) only checked for columns.",
        "DESIGN.md 3 C06",
    ),
    "C08": (
        "explicit-state BFS over the widest operand pool; phase classification construction / compile / database",
        "Every accepted tree over the iteration alphabet and the widest SQL alphabet (joins and chains of chains, joins, deduplicated/sliced/projected/calculated operands, doomed and identity leaves) up to the depth bound is compiled and executed on SQLite in both scan orders (or executed and fully iterated); any exception after acceptance is a violation.",
        "Trusted: SQLite as target database with the UNION-operand adapter; iteration-engine joins and SQL materializations (need a Processor) are outside this alphabet.",
        "DESIGN.md 3 C08",
    ),
    "C11": (
        "explicit-state BFS over sort/slice-heavy SQL programs in both scan orders; list equality where the reference says order is determined; refusal probes",
        "Every SQL program over a sort/slice-heavy alphabet up to depth 4-5: where the reference says the order is determined by a total sort (with the keep-rules transcribing C11) the fetched list must equal the reference list in both physical scan orders and following slices are judged as determinate windows; every chain/join/materialization over a pending sort must raise.",
        "Trusted: reference order rules (det/psort in vf/refmodel.py); the 'outermost level carries a sort' gate for selection/calculation reads the public Select marker attributes.",
        "DESIGN.md 3 C11",
    ),
    "C14": (
        "explicit-state BFS over three-engine programs with every preferred-engine option; node-local invariants on every reached tree",
        "Every tree reachable by programs over the iteration, SQL and three-engine alphabets (transfers, materializations, cross-engine joins, engine-restricted functions, all backtrack/transfer/require_preferred_engine combinations) up to the depth bound is walked completely (target/lhs/rhs/skip_to) and the node-local invariants of C14 are evaluated; documented no-ops must return the identical object and predicted ill-formed calls must raise; plus an exhaustive enumeration over pairs of DISTINCT engine objects carrying the SAME name (transfers must not be elided, cross-engine binary operations must raise).",
        "Trusted: the walker reads public attributes only; reference typing decides which calls are ill-formed.",
        "DESIGN.md 3 C14",
    ),
    "C16": (
        "explicit-state BFS over programs incl. doomed/identity leaves; Diagnostics with and without a truthful executor vs reference emptiness",
        "Every program up to the depth bound over alphabets extended with doomed and join-identity leaves, trivially false predicates, constant non-literal predicates and zero-limit slices: Diagnostics.run without executor must never doom a relation the reference says has rows; with an executor that really executes the sub-relation it must be exact; every doomed verdict must carry a message.",
        "Trusted: reference evaluator for emptiness; single-engine trees; programs with undetermined emptiness are skipped and counted.",
        "DESIGN.md 3 C16",
    ),
    "C17": (
        "explicit-state BFS over SQL programs plus exhaustive bottom-up raw-tree assembly; conform identity/idempotence, rows, marker coherence",
        "For every API-built SQL tree: conform(x) is x and every Select marker is coherent; for every raw tree assembled without the engine (all sequences of 17 raw operations up to depth 3-4 incl. chain and join nodes): conform(raw) returns the reference rows on SQLite, is idempotent and coherent.",
        "Trusted: reference evaluator; raw assembly uses the documented _finish_apply hook; rows compared as multisets.",
        "DESIGN.md 3 C17",
    ),
    "C18": (
        "explicit-state BFS over iteration trees with instrumented leaf payloads; counters are the state invariant",
        "Every tree over the lazy operation set up to depth 4-5 and every tree mixing in eager operations up to depth 3-4, over leaf payloads that count iteration starts and pulls: execute() of a lazy tree touches no leaf; every full iteration starts at most one pass per leaf occurrence; eager inputs are consumed at most once at execute time; materialization caches are not recomputed; repeated iterations give identical rows.",
        "Trusted: instrumentation subclasses of the public payload classes; reference evaluator for the rows.",
        "DESIGN.md 3 C18",
    ),
    "C20": (
        "explicit-state BFS over well-typed states x exhaustive menu of single ill-typing edits x all preferred-engine flag combinations",
        "At every well-typed state of the iteration, SQL and three-engine explorations every edit of the ill-typing menu (incl. joins issued through Join.apply directly and zero-step slices) is issued plain and through every preferred-engine flag combination; edits that the reference typing finds ill-formed for that target must raise the documented class, return nothing and leave all existing relations' fingerprints unchanged.",
        "Trusted: reference typing (which edits are ill-formed, which classes are allowed).",
        "DESIGN.md 3 C20",
    ),
    "C07": (
        "explicit-state BFS over three-engine programs; real row-moving Processor; histories of repeated process() on shared nodes",
        "Every program over a three-engine alphabet (transfers every direction, materializations at every position, chains with statically empty branches, joins after transfer back to SQL) up to the depth bound is processed three times by a Processor subclass that really moves rows between SQLite and the iteration engine; result rows vs reference, input-tree fingerprint before/after, result columns/engine, hook log discipline and at-most-once materialization are judged on every call; sibling trees share their parent's nodes; a twin sub-space chains leaves that compare equal but hold other rows.",
        "Trusted: RealProcessor harness (vf/realize.py), reference evaluator, SQLite.",
        "DESIGN.md 3 C07",
    ),
    "C03": (
        "explicit-state BFS over multi-engine base trees x every operation x every preferred-engine flag combination; real Processor evaluation",
        "On every multi-engine base tree reachable within the base depth, every operation of the menu (incl. joins to a SQL partner) is issued with preferred_engine in {s,e1} and all five backtrack/transfer/require combinations; exceptions, columns, per-engine operation counts and the Processor-evaluated rows (vs the reference and vs the same call with no preferred engine) are judged on every call.",
        "Trusted: reference evaluator, RealProcessor; 'result lives in the preferred engine' read together with 'transfer only if backtracking fails' (DESIGN 3 C03).",
        "DESIGN.md 3 C03",
    ),
    "C15": (
        "explicit-state BFS over transfer/materialization chains among three engines with every preferred-engine call on top; identity of locked nodes",
        "Every program over transfers among three engines, two materializations and a few operations up to the base depth, with every menu operation under every preferred-engine option applied on top: self-transfers return the identical object, transfer chains keep Processor-evaluated content in the requested engine, materialized() of locked relations adds no node, and every locked node of the input tree that reappears (by equality or by name) in the output is the identical object with the identical upstream; parents are processed first so payload sharing is observable; a second sub-space starts from statically empty sources and never runs a Processor (locks without payloads); a third brings twin leaves (equal to a sibling, other rows) next to their siblings.",
        "Trusted: library dataclass equality vs Python identity; RealProcessor; reference evaluator.",
        "DESIGN.md 3 C15",
    ),
    "C09": (
        "exhaustive enumeration of call histories over a shared pool of live relations; deep fingerprints before/after the last action",
        "All histories up to length 3 (thorough 4) of factory calls, compile, execute, Processor.process and Diagnostics over a shared pool (both engines): the deep fingerprint of every older relation (structure, columns, bounds, str, repr, hash, pairwise equality, leaf payload content) must be unchanged by the last action, repeated compile/execute must agree, every relation must be hashable, and a replay on the same leaves must give equal relations with equal hashes.",
        "Trusted: fingerprint walker; materialization payload slots excluded (owned by C07/C10); actions address the leaves and the two newest members.",
        "DESIGN.md 3 C09",
    ),
    "C10": (
        "exhaustive enumeration of attach/execute/process histories over trees sharing a materialization; slot and counter invariants after every step",
        "All histories of length 3-5 over attach_payload (every node kind, two distinct payload objects), iteration execute and Processor.process on three trees sharing one materialization, in four scenarios (iteration-only, SQL source, SQL materialization below a transfer, SQL materialization above a transfer): payload slots are write-once, non-markers and filled markers reject attachment with TypeError and unchanged state, the shared upstream is evaluated at most once (instrumented leaf, hook log), and every evaluation returns the reference rows.",
        "Trusted: RealProcessor harness, instrumented payload subclasses; attached payloads carry the correct rows.",
        "DESIGN.md 3 C10",
    ),
    "C19": (
        "stateless preemption-bounded schedule exploration (CHESS style) of real threads at bytecode granularity + exhaustive sequential histories",
        "Real threads issue name requests (direct, via leaf construction, make_leaf, materialized()) under a cooperative scheduler whose scheduling points are the CPython bytecode instructions inside the library; every schedule with at most 2 preemptions (thorough: 3 for the smaller harnesses) of six harnesses is executed to completion, plus all sequential histories up to length 3-4 over 3 engines; uuid4 is an injective fresh-value oracle; names must be pairwise distinct, carry the requested prefix and embed their own fresh draw.",
        "Assumes uuid4 never repeats (explicit seam); bytecode interleavings over-approximate what the GIL permits; bounded preemptions.",
        "DESIGN.md 2.5, 3 C19",
    ),
}

NOT_YET = "check not built yet in this revision (planned, see DESIGN.md section 3)"


def main():
    checks = []
    for p in PROPS:
        pid = p["id"]
        if pid not in CHECKS:
            continue
        tech, text, note, ref = CHECKS[pid]
        checks.append(
            {
                "property_id": pid,
                "quick_cmd": f"./check {pid} quick",
                "thorough_cmd": f"./check {pid} thorough",
                "evidence_file": f"/verif/evidence/{pid}.json",
                "replay_cmd_template": "./check --replay {path}",
                "engine": "vf",
                "level_claimed": {"category": "model_checking", "text": text, "design_ref": ref},
                "level_note": note,
                "technique": tech,
            }
        )
    manifest = {
        "version": 1,
        "setup_cmd": "./setup.sh",
        "hooks": {
            "guard": "LSST_DAF_RELATION_VERIF",
            "enable": "no hooks are needed: checks import /repo/python directly (PYTHONPATH) and drive the public API",
            "baseline_off_cmd": "cd /repo && /venv/bin/python -m pytest -ra -q -p no:cacheprovider --timeout=900 --continue-on-collection-errors --junitxml=/verif/.scratch/baseline.junit.xml",
            "source_commits": [],
            "add_only": True,
        },
        "engines": [
            {
                "name": "vf",
                "path": "/verif/vf",
                "serves_properties": sorted(CHECKS),
                "kind_free_text": "hand-written explicit-state explorers (BFS over factory-call programs / histories, opcode-level thread schedule explorer) driving the real library against a reference model",
            }
        ],
        "checks": checks,
        "not_applicable": [
            {"property_id": p["id"], "reason": NOT_YET} for p in PROPS if p["id"] not in CHECKS
        ],
        "notes": "All checks run under /venv/bin/python with PYTHONPATH=/repo/python:/verif; see DESIGN.md (section 7 = as built). The program explorers stop with a library-call-did-not-terminate violation (exit 1) if no exploration task finishes within VERIF_STALL_S (default 240) seconds. /repo carries 32 unguarded fix: commits (each listed as a fixed: line in known_findings.json, none suppresses anything); 4 genuine defects are recorded as known findings there with witnesses replayed at the start of every run of the checks that list them.",
    }
    with open(os.path.join(ROOT, "MANIFEST.json"), "w") as f:
        json.dump(manifest, f, indent=1)
        f.write("\n")


if __name__ == "__main__":
    main()
