#!/usr/bin/env python3
"""Turn a batch_eval log into /verif/seeded/<property>_<stem>/ directories (patch, demo, meta.json)."""
import collections, json, os, re, shutil, sys

log = sys.argv[1]
SUBDIR = os.environ.get("SEEDED_SUBDIR", "seeded_out")
INFIX = os.environ.get("SEEDED_INFIX", "")
root = os.path.join(os.path.dirname(os.path.dirname(os.path.abspath(__file__))), "seeded")
notes = json.load(open(sys.argv[2])) if len(sys.argv) > 2 else {}
entries = collections.OrderedDict()
for line in open(log):
    m = re.match(r"(\w+) (m\d): (.*)", line.strip())
    if not m:
        continue
    pid, stem, rest = m.groups()
    e = entries.setdefault((pid, stem), {"checks": {}, "tests": None, "demo": None})
    t = re.match(r"repo-tests-with-change: \[(.*?)\] demo-exit clean=(\d+) mutated=(\d+)", rest)
    if t:
        e["tests"], e["demo"] = t.group(1), (int(t.group(2)), int(t.group(3)))
        continue
    c = re.match(r"check (C\d+) exit=(\d+) violation_lines=(\d+) first:(.*)", rest)
    if c:
        e["checks"][c.group(1)] = {"exit": int(c.group(2)), "violation_lines": int(c.group(3)), "first": c.group(4).strip()[:240]}
    if "PATCH-DOES-NOT-APPLY" in rest:
        e["tests"] = "PATCH-DOES-NOT-APPLY"
kept = 0
for (pid, stem), e in entries.items():
    src = f"/tmp/wt/{pid}/{SUBDIR}"
    if e["tests"] is None or "passed" not in e["tests"] or "failed" in e["tests"] or e["demo"] != (0, 1):
        print("NOT CONFIRMED", pid, stem, e["tests"], e["demo"])
        continue
    sid = f"{pid}_{INFIX}{stem}"
    d = os.path.join(root, sid)
    os.makedirs(d, exist_ok=True)
    shutil.copy(f"{src}/{stem}.diff", f"{d}/patch.diff")
    shutil.copy(f"{src}/{stem}_demo.py", f"{d}/demo.py")
    desc = open(f"{src}/{stem}.txt").read() if os.path.exists(f"{src}/{stem}.txt") else ""
    caught = sorted(c for c, r in e["checks"].items() if r["exit"] == 1 and r["violation_lines"] > 0)
    missed = sorted(c for c, r in e["checks"].items() if r["exit"] == 0)
    meta = {
        "id": sid,
        "breaks_property": pid if pid.startswith("C") else "any of C01-C20 (area-based round; the author's description names the properties)",
        "author": "independent sub-agent given only the property text and a scratch worktree of /repo (nothing from /verif)",
        "description_by_author": desc,
        "confirmed_by_me": {
            "repo_test_suite_with_change": e["tests"],
            "demo_exit_code_without_change": e["demo"][0],
            "demo_exit_code_with_change": e["demo"][1],
            "how": "tools/eval_seeded.sh: patch applied in a scratch worktree of /repo HEAD; pytest; demo on clean and patched tree; checks run with VERIF_REPO_OVERRIDE",
        },
        "checks_run_quick_tier": e["checks"],
        "caught_by": caught,
        "not_caught_by": missed,
        "note": notes.get(sid, ""),
    }
    json.dump(meta, open(f"{d}/meta.json", "w"), indent=1)
    kept += 1
print("kept", kept, "of", len(entries))
