#!/bin/bash
# Usage: tools/run_mutant.sh <patch.diff> <check ids...>
# Applies the patch in a scratch worktree (never in /repo), runs the repository's own tests and the
# given checks (quick tier) against it via VERIF_REPO_OVERRIDE, prints a one-line verdict per check,
# and removes the worktree again.
set -u
patch=$(realpath "$1"); shift
wt=$(mktemp -d /var/tmp/mutwt.XXXXXX)
rmdir "$wt"
git -C /repo worktree add -q --detach "$wt" HEAD || exit 2
cp /repo/python/lsst/daf/relation/version.py "$wt/python/lsst/daf/relation/version.py"
cleanup() { git -C /repo worktree remove --force "$wt" >/dev/null 2>&1; rm -rf "$wt"; }
trap cleanup EXIT
if ! git -C "$wt" apply "$patch"; then echo "PATCH-DOES-NOT-APPLY $patch"; exit 2; fi
t=$(cd "$wt" && PYTHONPATH="$wt/python" /venv/bin/python -m pytest -q -p no:cacheprovider tests 2>&1 | tail -1)
echo "repo-tests: $t"
cd /verif
for c in "$@"; do
  out=$(VERIF_REPO_OVERRIDE="$wt" VERIF_NO_EVIDENCE=1 ./check "$c" quick 2>&1)
  rc=$?
  n=$(echo "$out" | grep -c '^VIOLATION')
  k=$(echo "$out" | grep -m1 'kind=' | cut -c1-220)
  echo "check $c: exit=$rc violation_lines=$n first:$k"
done
