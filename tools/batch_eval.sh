#!/bin/bash
# tools/batch_eval.sh <logfile> -- lines of "dir stem checks..." on stdin; each result line is prefixed with the directory's parent name
log=$1
while read -r dir stem checks; do
  [ -z "$dir" ] && continue
  tag=$(basename "$(dirname "$dir")")
  /verif/tools/eval_seeded.sh "$dir" "$stem" $checks 2>&1 | grep -v WARNING | sed "s/^/$tag /" >> "$log"
done
