#!/bin/bash
# tools/batch_eval.sh <logfile> -- lines of "dir stem checks..." on stdin
log=$1
while read -r dir stem checks; do
  [ -z "$dir" ] && continue
  /verif/tools/eval_seeded.sh "$dir" "$stem" $checks 2>&1 | grep -v WARNING >> "$log"
done
