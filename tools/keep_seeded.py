#!/usr/bin/env python3
"""Record a confirmed seeded change under /verif/seeded/<id>/.

usage: keep_seeded.py <id> <property> <seeded_out dir> <stem> --caught-by C05,C01 [--missed-by ..] --needs "..." --ran "..."
"""
import argparse, json, os, shutil

ap = argparse.ArgumentParser()
ap.add_argument("id")
ap.add_argument("property")
ap.add_argument("dir")
ap.add_argument("stem")
ap.add_argument("--caught-by", default="")
ap.add_argument("--missed-by", default="")
ap.add_argument("--needs", default="")
ap.add_argument("--ran", default="")
ap.add_argument("--note", default="")
a = ap.parse_args()
root = os.path.join(os.path.dirname(os.path.dirname(os.path.abspath(__file__))), "seeded", a.id)
os.makedirs(root, exist_ok=True)
shutil.copy(os.path.join(a.dir, a.stem + ".diff"), os.path.join(root, "patch.diff"))
shutil.copy(os.path.join(a.dir, a.stem + "_demo.py"), os.path.join(root, "demo.py"))
desc = ""
t = os.path.join(a.dir, a.stem + ".txt")
if os.path.exists(t):
    desc = open(t).read()
meta = {
    "id": a.id,
    "breaks_property": a.property,
    "description_by_author": desc,
    "needs_to_manifest": a.needs,
    "confirmed": a.ran,
    "caught_by_checks": [c for c in a.caught_by.split(",") if c],
    "not_caught_by_checks_tried": [c for c in a.missed_by.split(",") if c],
    "note": a.note,
    "author": "independent sub-agent given only the property text and a scratch worktree",
}
json.dump(meta, open(os.path.join(root, "meta.json"), "w"), indent=1)
print("kept", root)
