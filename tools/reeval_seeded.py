#!/usr/bin/env python3
"""Re-verify every kept seeded change against the CURRENT /repo HEAD and the CURRENT checks.

For each /verif/seeded/<id>: scratch worktree of HEAD (never /repo itself), apply patch.diff (a patch that
only applies with fuzz is rebased and rewritten), run the repository's tests (must pass), the demo on the
clean and on the changed tree, and the quick tier of every check the change was recorded as caught by
(plus any given with --also).  meta.json gets `applies_to_repo_commit`, `reverified` (per-check verdicts)
and an updated `caught_by_checks`.  Results are appended to the log given as argv[1].

usage: reeval_seeded.py <log> [id ...]
"""
import json
import os
import subprocess
import sys
import tempfile

ROOT = os.path.dirname(os.path.dirname(os.path.abspath(__file__)))
SEEDED = os.path.join(ROOT, "seeded")


def sh(cmd, **kw):
    return subprocess.run(cmd, shell=True, capture_output=True, text=True, **kw)


def main():
    log = open(sys.argv[1], "a")
    ids = sys.argv[2:] or sorted(os.listdir(SEEDED))
    for sid in ids:
        head = sh("git -C /repo log -1 --format=%h").stdout.strip()
        d = os.path.join(SEEDED, sid)
        meta_p = os.path.join(d, "meta.json")
        if not os.path.exists(meta_p):
            continue
        meta = json.load(open(meta_p))
        wt = tempfile.mkdtemp(prefix="reeval.", dir="/var/tmp")
        os.rmdir(wt)
        if sh(f"git -C /repo worktree add -q --detach {wt} HEAD").returncode:
            print(sid, "WORKTREE-FAILED", file=log, flush=True)
            continue
        try:
            sh(f"cp /repo/python/lsst/daf/relation/version.py {wt}/python/lsst/daf/relation/version.py")
            env = dict(os.environ, PYTHONPATH=f"{wt}/python")
            clean = sh(f"cd {wt} && timeout 300 /venv/bin/python {d}/demo.py", env=env).returncode
            rebased = False
            if sh(f"git -C {wt} apply {d}/patch.diff").returncode:
                r = sh(f"cd {wt} && patch -p1 -F3 --no-backup-if-mismatch < {d}/patch.diff")
                if r.returncode:
                    print(sid, "PATCH-DOES-NOT-APPLY", file=log, flush=True)
                    continue
                rebased = True
                diff = sh(f"git -C {wt} diff -- . ':!python/lsst/daf/relation/version.py'").stdout
                open(os.path.join(d, "patch.diff"), "w").write(diff)
            tests = sh(f"cd {wt} && /venv/bin/python -m pytest -q -p no:cacheprovider tests 2>&1 | tail -1", env=env).stdout.strip()
            mut = sh(f"cd {wt} && timeout 300 /venv/bin/python {d}/demo.py", env=env).returncode
            if mut == 0 and clean == 0:
                # the change no longer breaks anything observable at this HEAD (a later fix: commit closed the
                # path it relied on): keep the record of the commit it applied to and was caught at
                meta["neutralised_at_repo_commit"] = head
                json.dump(meta, open(meta_p, "w"), indent=1)
                print(sid, f"tests=[{tests}] demo clean={clean} changed={mut} NEUTRALISED (demo passes with the change)", file=log, flush=True)
                continue
            verdicts = {}
            ck = "caught_by" if "caught_by" in meta else "caught_by_checks"
            nk = "not_caught_by" if "not_caught_by" in meta else "not_caught_by_checks_tried"
            checks = list(dict.fromkeys(meta.get(ck, [])))
            env2 = dict(os.environ, VERIF_REPO_OVERRIDE=wt, VERIF_NO_EVIDENCE="1")
            for c in checks:
                r = sh(f"cd {ROOT} && ./check {c} quick 2>&1", env=env2)
                n = sum(1 for line in r.stdout.splitlines() if line.startswith("VIOLATION"))
                verdicts[c] = {"exit": r.returncode, "violation_lines": n}
            caught = [c for c, v in verdicts.items() if v["exit"] == 1 and v["violation_lines"] > 0]
            meta["applies_to_repo_commit"] = head
            meta["reverified"] = {
                "repo_commit": head,
                "repo_tests_with_change": tests,
                "demo_exit_clean": clean,
                "demo_exit_changed": mut,
                "checks": verdicts,
                "patch_rebased": rebased,
            }
            if checks:
                lost = [c for c in checks if c not in caught]
                meta[ck] = caught
                if lost:
                    meta[nk] = sorted(set(meta.get(nk, [])) | set(lost))
            json.dump(meta, open(meta_p, "w"), indent=1)
            print(sid, f"tests=[{tests}] demo clean={clean} changed={mut} rebased={rebased}", json.dumps(verdicts), "CAUGHT" if caught else "NOT-CAUGHT", file=log, flush=True)
        finally:
            sh(f"git -C /repo worktree remove --force {wt}")
            sh(f"rm -rf {wt}")


main()
