#!/usr/bin/env python3
"""Print the markdown table of seeded changes (from seeded/*/meta.json) for DESIGN.md section 7.4."""
import glob, json, os, re

root = os.path.join(os.path.dirname(os.path.dirname(os.path.abspath(__file__))), "seeded")
rows = []
for f in sorted(glob.glob(os.path.join(root, "*", "meta.json"))):
    m = json.load(open(f))
    desc = m["description_by_author"].strip().splitlines()
    first = ""
    for line in desc:
        line = line.strip(" -*#")
        if len(line) > 25:
            first = line
            break
    first = re.sub(r"\s+", " ", first)[:150]
    files = sorted(set(re.findall(r"^\+\+\+ b/python/lsst/daf/relation/(\S+)", open(os.path.join(os.path.dirname(f), "patch.diff")).read(), re.M)))
    caught = ", ".join(m["caught_by"]) or "none"
    if m.get("neutralised_at_repo_commit"):
        caught += f" (at {m.get('applies_to_repo_commit', '?')}; harmless since {m['neutralised_at_repo_commit']})"
    rows.append((m["id"], ", ".join(files), first, caught, ", ".join(m["not_caught_by"]) or ""))
print("| id | file(s) changed | what (author's words, abridged) | caught by | tried, silent |")
print("|---|---|---|---|---|")
for r in rows:
    print("| " + " | ".join(x.replace("|", "/") for x in r) + " |")
