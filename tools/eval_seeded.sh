#!/bin/bash
# Usage: tools/eval_seeded.sh <seeded_out dir> <mutant stem e.g. m1> <check ids...>
# Confirms a sub-agent's seeded change (tests pass with it, demo fails with it and passes without it)
# and runs the given checks (quick tier) against it in a scratch worktree.
set -u
dir=$(realpath "$1"); stem=$2; shift 2
patch="$dir/$stem.diff"; demo="$dir/${stem}_demo.py"
wt=$(mktemp -d /var/tmp/mutwt.XXXXXX); rmdir "$wt"
git -C /repo worktree add -q --detach "$wt" HEAD || exit 2
cp /repo/python/lsst/daf/relation/version.py "$wt/python/lsst/daf/relation/version.py"
cleanup() { git -C /repo worktree remove --force "$wt" >/dev/null 2>&1; rm -rf "$wt"; }
trap cleanup EXIT
(cd "$wt" && PYTHONPATH="$wt/python" timeout 300 /venv/bin/python "$demo" >/dev/null 2>&1); clean_rc=$?
if ! git -C "$wt" apply "$patch"; then echo "$stem: PATCH-DOES-NOT-APPLY"; exit 2; fi
t=$(cd "$wt" && PYTHONPATH="$wt/python" /venv/bin/python -m pytest -q -p no:cacheprovider tests 2>&1 | tail -1)
(cd "$wt" && PYTHONPATH="$wt/python" timeout 300 /venv/bin/python "$demo" >/dev/null 2>&1); mut_rc=$?
echo "$stem: repo-tests-with-change: [$t] demo-exit clean=$clean_rc mutated=$mut_rc"
cd /verif
for c in "$@"; do
  out=$(VERIF_REPO_OVERRIDE="$wt" VERIF_NO_EVIDENCE=1 ./check "$c" quick 2>&1); rc=$?
  n=$(echo "$out" | grep -c '^VIOLATION')
  k=$(echo "$out" | grep -m1 'kind=' | cut -c1-200)
  echo "$stem: check $c exit=$rc violation_lines=$n first:$k"
done
